"""
Explicit-state exploration of the algebra of derived quantities (shared by C03 C04 C05 C20).

A state is a derived Scalar reached from an atom by multiplying / dividing with atoms using the
real operators; it is identified by its *ordered* composing map tuple((category, unit, exp))
(ordered because the implementation is order sensitive).  States are rebuilt from their history on
demand (fresh objects); breadth-first, de-duplicated on the canonical key.
"""
from fractions import Fraction as F

from barril.units import Scalar

from .ref.dims import Model

# (category, unit): two categories sharing a type, two units per type, all scale-only.
BASIS = [
    ("length", "m"),
    ("length", "cm"),
    ("depth", "m"),
    ("depth", "km"),
    ("time", "s"),
    ("time", "min"),
    ("mass", "kg"),
    ("mass", "g"),
]
PRIMES = [2.0, 3.0, 5.0, 7.0, 11.0, 13.0, 17.0, 19.0, 23.0, 29.0]
PRIMES2 = [-2.0, 0.5, 3.0, -7.0, 0.25, 13.0, -1.5, 19.0, 0.125, -29.0]


def key_of(quantity):
    return tuple((c, u, e) for c, (u, e) in quantity.GetCategoryToUnitAndExps().items())


class State:
    __slots__ = ("history", "scalar", "key", "dim", "dimkey", "mag", "depth")

    def __repr__(self):
        return "State(%s)" % (self.history,)


def atom(basis, values, i):
    c, u = basis[i]
    return Scalar(values[i], u, c)


def _first(h0):
    """history[0] is an atom index i, or ("1/", i): the reciprocal 1.0 / atom (number on the left)"""
    return (h0[1], True) if isinstance(h0, tuple) else (h0, False)


def replay(history, basis, values):
    """Rebuild the Scalar of a history [first, (op, atom), ...] on fresh objects."""
    i0, rec = _first(history[0])
    s = atom(basis, values, i0)
    if rec:
        s = 1.0 / s
    for op, i in history[1:]:
        a = atom(basis, values, i)
        s = s * a if op == "*" else s / a
    return s


def model_magnitude(model, history, basis, values):
    """Exact base-unit magnitude predicted by the dims model for a history (scale-only units)."""

    def m(i):
        return F(values[i]) * model.factor(basis[i][1])

    i0, rec = _first(history[0])
    mag = 1 / m(i0) if rec else m(i0)
    for op, i in history[1:]:
        mag = mag * m(i) if op == "*" else mag / m(i)
    return mag


def model_dimension(db, history, basis):
    dim = {}

    def add(i, sign):
        qt = db.GetCategoryQuantityType(basis[i][0])
        dim[qt] = dim.get(qt, 0) + sign

    i0, rec = _first(history[0])
    add(i0, -1 if rec else 1)
    for op, i in history[1:]:
        add(i, 1 if op == "*" else -1)
    return {k: v for k, v in dim.items() if v}


def explore(db, depth, basis=BASIS, values=PRIMES, on_transition=None, reciprocals=False):
    """
    BFS to `depth` factors.  Returns (states list in BFS order, transitions count).
    on_transition(parent_state, op, atom_index, result_scalar_or_exception, history) is called for
    every explored edge (also the ones leading to already known states).
    """
    model = Model(db)
    states = {}
    order = []
    frontier = []
    firsts = [(i,) for i in range(len(basis))]
    if reciprocals:
        firsts += [(("1/", i),) for i in range(len(basis))]
    for h in firsts:
        s = replay(h, basis, values)
        st = _mk(db, model, h, s, basis, values)
        if st.key not in states:
            states[st.key] = st
            order.append(st)
            frontier.append(st)
    transitions = 0
    for d in range(2, depth + 1):
        nxt = []
        for st in frontier:
            for op in "*/":
                for i in range(len(basis)):
                    transitions += 1
                    h = st.history + ((op, i),)
                    try:
                        s = replay(h, basis, values)
                    except Exception as e:  # judged by the caller
                        if on_transition:
                            on_transition(st, op, i, e, h)
                        continue
                    if on_transition:
                        on_transition(st, op, i, s, h)
                    k = key_of(s.GetQuantity())
                    if k not in states:
                        n = _mk(db, model, h, s, basis, values)
                        states[k] = n
                        order.append(n)
                        nxt.append(n)
        frontier = nxt
    return order, transitions


def _mk(db, model, h, s, basis, values):
    st = State()
    st.history = h
    st.scalar = s
    st.key = key_of(s.GetQuantity())
    st.dim = model_dimension(db, h, basis)
    st.dimkey = tuple(sorted(st.dim.items()))
    st.mag = model_magnitude(model, h, basis, values)
    st.depth = len(h)
    return st


def describe(history, basis=BASIS, values=PRIMES):
    i0, rec = _first(history[0])
    parts = [("1.0 / " if rec else "") + "Scalar(%r, %r, %r)" % (values[i0], basis[i0][1], basis[i0][0])]
    for op, i in history[1:]:
        parts.append("%s Scalar(%r, %r, %r)" % (op, values[i], basis[i][1], basis[i][0]))
    return " ".join(parts)


def expr(history, basis=BASIS, values=PRIMES):
    """Python expression rebuilding the state (left-associative like replay)."""
    i0, rec = _first(history[0])
    e = "Scalar(%r, %r, %r)" % (values[i0], basis[i0][1], basis[i0][0])
    if rec:
        e = "(1.0 / %s)" % e
    for op, i in history[1:]:
        e = "(%s %s Scalar(%r, %r, %r))" % (e, op, values[i], basis[i][1], basis[i][0])
    return e
