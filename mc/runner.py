"""
Runner shared by all checks: tier/seed handling, mergeable result parts, known findings,
replay files, evidence files and the exit code.

Exit codes: 0 property held on everything explored (known findings are printed, not counted)
            1 at least one violation that known_findings.json does not list
            2 the harness itself is broken (non-determinism, vacuous exploration, internal error)
"""
import json
import os
import subprocess
import sys
import time
import traceback

VERIF = os.path.dirname(os.path.dirname(os.path.abspath(__file__)))
SRC = os.environ.get("VERIF_BARRIL_SRC", "/repo/src")
# runs against a scratch copy (mutant demos) must not overwrite the evidence / replays of /repo
OUT = VERIF if os.path.abspath(SRC) == "/repo/src" else os.environ.get("VERIF_SCRATCH_OUT", "/var/tmp/verif-scratch")
MAX_REPLAYS = 12  # replay files written per run (every violation is still counted)
MAX_KEPT = 400  # violation records kept in memory per part


class HarnessError(Exception):
    """The machinery (not barril) misbehaved: reported with exit code 2, never as VIOLATION."""


class Part:
    """
    Mergeable partial result of a check (one per shard / worker task).

    counters      name -> int (summed on merge)
    sets          name -> set of small hashable keys (united on merge)
    samples       list of actual cases (capped)
    violations    list of dicts {signature, detail, snippet} (capped, total is counted)
    """

    def __init__(self):
        self.counters = {}
        self.sets = {}
        self.samples = []
        self.violations = []
        self.n_violations = 0
        self.notes = []
        self.models = {}  # defect model name -> {"count": n, "examples": [violation records]}

    def count(self, name, n=1):
        self.counters[name] = self.counters.get(name, 0) + n

    def add(self, name, key):
        s = self.sets.get(name)
        if s is None:
            s = self.sets[name] = set()
        s.add(key)

    def sample(self, case, cap=6):
        if len(self.samples) < cap:
            self.samples.append(case)

    def violation(self, signature, detail, snippet=None, model=None):
        """
        signature: the specific input / call site / minimal history that fails (string).
        model: name of a defect model that reproduces the observed wrong result exactly
               (used to attribute the record to a recorded class of known findings).
        """
        if callable(snippet):
            snippet = snippet()  # built lazily: only for cases that fail
        if model is not None:
            # a deviation that a named defect model reproduces exactly: counted per model (the
            # runner decides whether known_findings.json lists that model; if not, it is a violation)
            m = self.models.setdefault(model, {"count": 0, "examples": []})
            m["count"] += 1
            if len(m["examples"]) < 3:
                m["examples"].append({"signature": signature, "detail": detail, "snippet": snippet, "model": model})
            return
        for v in self.violations:
            if v["signature"] == signature:
                v["count"] = v.get("count", 1) + 1
                return
        self.n_violations += 1
        if len(self.violations) < MAX_KEPT:
            self.violations.append(
                {"signature": signature, "detail": detail, "snippet": snippet, "model": model}
            )

    def merge(self, other):
        for k, v in other.counters.items():
            self.counters[k] = self.counters.get(k, 0) + v
        for k, v in other.sets.items():
            self.sets.setdefault(k, set()).update(v)
        for s in other.samples:
            if len(self.samples) < 12:
                self.samples.append(s)
        have = {v["signature"] for v in self.violations}
        dup = 0
        for v in other.violations:
            if v["signature"] in have:
                dup += 1
            elif len(self.violations) < MAX_KEPT * 4:
                self.violations.append(v)
                have.add(v["signature"])
        self.n_violations += other.n_violations - dup
        self.notes.extend(other.notes)
        for name, m in other.models.items():
            mine = self.models.setdefault(name, {"count": 0, "examples": []})
            mine["count"] += m["count"]
            mine["examples"].extend(m["examples"][: 3 - len(mine["examples"])])
        return self


class Ctx:
    def __init__(self, prop_id, tier, seed):
        self.prop_id = prop_id
        self.tier = tier
        self.seed = seed
        self.thorough = tier == "thorough"
        self.part = Part()
        # to be filled by the check
        self.level = "exploration"
        self.rule = ""
        self.assumptions = []
        self.exhaustive = True
        self.coverage_extra = {}
        self.nontrivial = None  # int, measured
        self.evaluations = None
        self.states = None
        self.transitions = None
        self.traces = None
        self.distinct_outcomes = None
        self.procs = int(os.environ.get("VERIF_PROCS", "0")) or (16 if self.thorough else 8)

    def rotate(self, seq):
        """Seed only rotates the visiting order (verdict and coverage are order independent)."""
        seq = list(seq)
        if not seq:
            return seq
        k = self.seed % len(seq)
        return seq[k:] + seq[:k]


def _load_known():
    path = os.path.join(VERIF, "known_findings.json")
    if not os.path.exists(path):
        return []
    with open(path) as f:
        data = json.load(f)
    return data.get("findings", [])


def _git(*args):
    try:
        return subprocess.run(
            ["git", "-C", "/repo"] + list(args), capture_output=True, text=True, timeout=20
        ).stdout.strip()
    except Exception:
        return "?"


def jsonable(x):
    import math

    if isinstance(x, float):
        if math.isnan(x) or math.isinf(x):
            return repr(x)
        return x
    if isinstance(x, (str, int, bool)) or x is None:
        return x
    if isinstance(x, dict):
        return {str(k): jsonable(v) for k, v in x.items()}
    if isinstance(x, (list, tuple, set, frozenset)):
        return [jsonable(v) for v in x]
    return repr(x)


REPLAY_HEADER = '''\
# Stand-alone replay of a violation found by /verif (no explorer involved).
# Run with: /venv/bin/python <this file>   (exit 1 = the violation reproduces)
import os, sys
sys.path.insert(0, os.environ.get("VERIF_BARRIL_SRC", "/repo/src"))
sys.path.insert(0, {verif!r})
'''


def finish(ctx, wall):
    part = ctx.part
    known = [k for k in _load_known() if k.get("property") == ctx.prop_id]
    known_by_sig = {k["match"]: k for k in known if k.get("status") == "known" and "match" in k}
    known_by_model = {
        k["defect_model"]: k for k in known if k.get("status") == "known" and "defect_model" in k
    }
    seen_known = {}
    new = []
    for v in part.violations:
        k = known_by_sig.get(v["signature"])
        if k is None and v.get("model"):
            k = known_by_model.get(v["model"])
        if k is not None:
            seen_known.setdefault(k["id"], [k, 0])[1] += 1
        else:
            new.append(v)
    overflow = part.n_violations - len(part.violations)
    for name, m in sorted(part.models.items()):
        k = known_by_model.get(name)
        if k is not None:
            seen_known.setdefault(k["id"], [k, 0])[1] += m["count"]
        else:
            new.extend(m["examples"])
            overflow += m["count"] - len(m["examples"])

    for kid, (k, n) in sorted(seen_known.items()):
        print("KNOWN-FINDING: property=%s %s: %s (%d cases this run)" % (ctx.prop_id, kid, k["what"], n))

    replay_dir = os.path.join(OUT, "replays")
    os.makedirs(replay_dir, exist_ok=True)
    # remove stale replays of this property
    for fn in os.listdir(replay_dir):
        if fn.startswith(ctx.prop_id + "-"):
            try:
                os.remove(os.path.join(replay_dir, fn))
            except OSError:
                pass
    n_new = len(new) + max(0, overflow)
    for i, v in enumerate(new[:MAX_REPLAYS]):
        base = os.path.join(replay_dir, "%s-%03d" % (ctx.prop_id, i))
        rec = {
            "property": ctx.prop_id,
            "signature": v["signature"],
            "detail": jsonable(v["detail"]),
            "tier": ctx.tier,
            "seed": ctx.seed,
            "repo_head": _git("rev-parse", "HEAD"),
        }
        if v.get("snippet"):
            py = base + ".py"
            with open(py, "w") as f:
                f.write(REPLAY_HEADER.format(verif=VERIF))
                f.write(v["snippet"])
                f.write("\n")
            rec["python"] = py
        with open(base + ".json", "w") as f:
            json.dump(rec, f, indent=1, sort_keys=True)
        print("VIOLATION property=%s replay=%s" % (ctx.prop_id, base + ".json"))
        print("  signature: %s" % v["signature"])
        print("  detail: %s" % json.dumps(jsonable(v["detail"]), sort_keys=True)[:600])
    if n_new > MAX_REPLAYS:
        print("... %d further violations of %s not written out" % (n_new - MAX_REPLAYS, ctx.prop_id))

    counters = dict(part.counters)
    evaluations = ctx.evaluations if ctx.evaluations is not None else counters.get("evaluations", 0)
    nontrivial = ctx.nontrivial
    if nontrivial is None:
        nontrivial = len(part.sets.get("nontrivial", ())) + counters.get("nontrivial", 0)
    outcomes = ctx.distinct_outcomes
    if outcomes is None:
        outcomes = len(part.sets.get("outcomes", ()))
    coverage = {
        "evaluations": int(evaluations),
        "distinct_nontrivial": int(nontrivial),
        "rule": ctx.rule,
        "samples": jsonable(part.samples[:10]),
        "exhaustive": bool(ctx.exhaustive),
        "distinct_outcomes": int(outcomes),
        "counters": {k: int(v) for k, v in sorted(counters.items())},
        "known_findings_seen": {kid: n for kid, (k, n) in sorted(seen_known.items())},
        "notes": part.notes[:20],
    }
    states = ctx.states if ctx.states is not None else counters.get("states")
    transitions = ctx.transitions if ctx.transitions is not None else counters.get("transitions")
    if states is not None:
        coverage["states"] = int(states)
    if transitions is not None:
        coverage["transitions"] = int(transitions)
    if ctx.level == "model_checking":
        traces = ctx.traces if ctx.traces is not None else counters.get("traces", transitions or 0)
        coverage["traces_validated_against_impl"] = int(traces)
    coverage.update(jsonable(ctx.coverage_extra))
    evidence = {
        "property_id": ctx.prop_id,
        "tier": ctx.tier,
        "seed": ctx.seed,
        "level": ctx.level,
        "coverage": coverage,
        "assumptions": list(ctx.assumptions)
        + [
            "code under test imported from %s (HEAD %s%s)"
            % (SRC, _git("rev-parse", "--short", "HEAD"), ", dirty" if _git("status", "--porcelain", "--", "src") else ""),
            "float values outside the stated value alphabets are not covered",
        ],
        "wall_s": round(wall, 3),
        "violations": int(n_new),
    }
    os.makedirs(os.path.join(OUT, "evidence"), exist_ok=True)
    with open(os.path.join(OUT, "evidence", ctx.prop_id + ".json"), "w") as f:
        json.dump(evidence, f, indent=1, sort_keys=True)
    print(
        "%s %s seed=%d: evaluations=%d nontrivial=%d outcomes=%d states=%s transitions=%s known=%d violations=%d wall=%.1fs"
        % (
            ctx.prop_id,
            ctx.tier,
            ctx.seed,
            evaluations,
            nontrivial,
            outcomes,
            states,
            transitions,
            sum(n for _k, n in seen_known.values()),
            n_new,
            wall,
        )
    )
    # non-vacuity: a check that saw nothing interesting is broken, not silent
    if n_new == 0:
        if evaluations < 1 or nontrivial < 2:
            print("HARNESS-VACUOUS: evaluations=%d nontrivial=%d" % (evaluations, nontrivial))
            return 2
    return 1 if n_new else 0


def main(argv):
    import importlib

    if len(argv) >= 3 and argv[1] == "--replay":
        return replay(argv[0], argv[2])
    prop_id = argv[0]
    tier = argv[1] if len(argv) > 1 else os.environ.get("VERIF_TIER", "quick")
    if tier not in ("quick", "thorough"):
        print("usage: check Cxx quick|thorough | check Cxx --replay <file>")
        return 2
    seed = int(os.environ.get("VERIF_SEED", "0") or 0)
    sys.path.insert(0, SRC)
    import barril

    if not os.path.abspath(barril.__file__).startswith(os.path.abspath(SRC)):
        print("HARNESS-ERROR: barril imported from %s, expected under %s" % (barril.__file__, SRC))
        return 2
    import warnings

    import numpy

    warnings.filterwarnings("ignore")
    numpy.seterr(all="ignore")
    ctx = Ctx(prop_id, tier, seed)
    t0 = time.time()
    try:
        mod = importlib.import_module("mc.props." + prop_id.lower())
        mod.run(ctx)
        if ctx.thorough and os.environ.get("VERIF_WARM", "1") != "0" and getattr(mod, "WARM_REGIME", True):
            # second regime: the same exploration on databases that have already served a broad pack
            # of foreign requests (mc/worlds.py: warm_up); coverage counters are the sum of both passes
            from . import worlds

            cold = dict(ctx.part.counters)
            worlds.WARM = True
            try:
                mod.run(ctx)
            finally:
                worlds.WARM = False
            ctx.coverage_extra = dict(ctx.coverage_extra, regimes=["cold caches", "warm: after the prelude pack of mc/worlds.py warm_up"], evaluations_cold_pass=int(cold.get("evaluations", 0)))
    except HarnessError as e:
        print("HARNESS-NONDETERMINISM/ERROR: %s" % e)
        if ctx.part.n_violations:
            # violations were found before the harness gave up (e.g. library state that leaks between
            # histories also makes rebuilt states differ): they are the verdict
            ctx.part.notes.append("exploration stopped early: %s" % e)
            ctx.exhaustive = False
            return finish(ctx, time.time() - t0)
        return 2
    except Exception as e:
        tb = traceback.format_exc()
        cause = getattr(e, "__cause__", None)
        text = tb + (str(cause) if cause is not None else "")
        # Where did it come from?  An exception raised INSIDE the library while the harness performed an
        # operation that is valid by construction (building its own operands, a reference conversion) is a
        # verdict about the library, not a harness failure: the operation must not be rejected.
        frames = [l for l in text.splitlines() if l.strip().startswith("File ")]
        last = frames[-1] if frames else ""
        src_root = os.path.abspath(SRC)
        if src_root in last or (os.sep + "barril" + os.sep in last and "/verif/" not in last):
            traceback.print_exc()
            ctx.part.violation(
                "%s:the library raised %s inside an operation the harness relies on (valid by construction)" % (prop_id, type(e).__name__),
                {"exception": repr(e)[:300], "traceback_tail": text.splitlines()[-12:]},
            )
            return finish(ctx, time.time() - t0)
        traceback.print_exc()
        print("HARNESS-ERROR: internal error in check %s" % prop_id)
        return 2
    return finish(ctx, time.time() - t0)


def replay(prop_id, path):
    with open(path) as f:
        rec = json.load(f)
    py = rec.get("python")
    if not py or not os.path.exists(py):
        print("no python snippet recorded for this violation; signature: %s" % rec.get("signature"))
        return 2
    r = subprocess.run([sys.executable, py])
    if r.returncode != 0:
        print("VIOLATION property=%s replay=%s" % (rec.get("property", prop_id), path))
        return 1
    print("replay passes: the recorded violation no longer reproduces")
    return 0
