"""
Reference model of the unit-system manager (boring Python): every system owns its mapping.
Each method returns None when accepted or the name of the expected exception class when rejected
(and then changes nothing).  The predicted callback log is appended to self.log.
"""
from collections import OrderedDict


class UsmModel:
    def __init__(self, fallback=None):
        self.fallback = dict(fallback or {})  # what the application's unit-system class answers for unconfigured categories
        self.systems = OrderedDict()
        self.current = None
        self.template = None
        self.log = []
        self.client = None  # optional listener of the current-system notification: called with the id, may call back into the model

    def _notify_current(self, sid):
        self.log.append(("current", sid))
        if self.client is not None:
            self.client(sid)

    def add(self, sid, mapping):
        if sid in self.systems:
            return "KeyError"  # UnitSystemIDError
        if self.template is not None:
            if mapping is None:
                mapping = dict(self.template)
            elif not set(mapping).issuperset(self.template):
                return "KeyError"  # UnitSystemCategoriesError
        elif mapping is None:
            mapping = {}
        self.systems[sid] = dict(mapping)
        if self.current is None:
            self.current = sid
            self._notify_current(sid)
        return None

    def remove(self, sid):
        if sid not in self.systems:
            return "KeyError"
        del self.systems[sid]
        if self.current == sid:
            self.current = next(iter(self.systems), None)
            self._notify_current(self.current)
        return None

    def set_current(self, sid):
        self.current = sid
        self._notify_current(sid)
        return None

    def set_template(self, mapping):
        for m in self.systems.values():
            if not set(m).issuperset(mapping):
                return "RuntimeError"  # InvalidTemplateError
        self.template = dict(mapping)
        return None

    def set_default_unit(self, sid, category, unit):
        self.systems[sid][category] = unit
        if sid == self.current:
            self.log.append(("unit", category, unit))
        return None

    def remove_category(self, sid, category):
        if category in self.systems[sid]:
            del self.systems[sid][category]
            if sid == self.current:
                self.log.append(("unit", category, None))
        return None

    def new_id(self):
        n = 1
        while "system %d" % n in self.systems:
            n += 1
        return "system %d" % n

    def current_default_unit(self, category):
        if self.current is None:
            return None
        unit = self.systems[self.current].get(category)
        return self.fallback.get(category) if unit is None else unit
