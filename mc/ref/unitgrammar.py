"""
The table's unit-symbol grammar (parser), independent of barril's printers.

    symbol  := ['1'] factors ['/' factors] | factors
    factors := factor ('.' factor)*
    factor  := atom [integer]

`atoms` is the set of admissible atom symbols.  A token that is itself an atom is that atom with
exponent 1; otherwise the longest proper prefix that is an atom followed only by digits is
atom ** digits.
"""
import re


class ParseError(ValueError):
    pass


_NUM = re.compile(r"^([0-9]*\.?[0-9]+(?:[eE][-+]?[0-9]+)?)")


def parse_factor(tok, atoms, allow_whole=True):
    if not tok:
        raise ParseError("empty factor")
    if allow_whole and tok in atoms:
        return (tok, 1)
    m = re.match(r"^(.*?)(\d+)$", tok)
    if m and m.group(1) in atoms:
        return (m.group(1), int(m.group(2)))
    raise ParseError("unknown factor %r" % tok)


def parse(symbol, atoms):
    """-> list of (atom, exp): numerator factors in order, then denominator factors (negative)."""
    if symbol.count("/") > 1:
        raise ParseError("more than one '/' in %r" % symbol)
    if "/" in symbol:
        num, den = symbol.split("/")
    else:
        num, den = symbol, None
    out = []
    if num == "1" and den is not None:
        pass
    else:
        if num == "":
            raise ParseError("empty numerator in %r" % symbol)
        for tok in num.split("."):
            out.append(parse_factor(tok, atoms))
    if den is not None:
        if den == "":
            raise ParseError("empty denominator in %r" % symbol)
        for tok in den.split("."):
            a, e = parse_factor(tok, atoms)
            out.append((a, -e))
    return out


def parse_names(text):
    """
    Grammar of the category / quantity-type / unit-name strings of a derived quantity:
        text := ('1' | terms) [' / ' terms] ; terms := term (' * ' term)* ; term := name | '(' name ') ** ' int
    -> list of (name, exp), numerator terms then denominator terms (negative).
    """
    if text == "":
        return []
    parts = text.split(" / ")
    if len(parts) > 2:
        raise ParseError("more than one ' / ' in %r" % text)

    def terms(s, sign):
        res = []
        for t in s.split(" * "):
            m = re.match(r"^\((.*)\) \*\* (\d+)$", t)
            if m:
                res.append((m.group(1), sign * int(m.group(2))))
            else:
                if t == "" or "**" in t:
                    raise ParseError("bad term %r in %r" % (t, text))
                res.append((t, sign))
        return res

    out = []
    if len(parts) == 2 and parts[0] == "1":
        pass
    else:
        out.extend(terms(parts[0], 1))
    if len(parts) == 2:
        out.extend(terms(parts[1], -1))
    return out
