"""
Independent dimensional-analysis model (exact rationals).

A physical amount is (magnitude in base units, dimension {quantity type -> exponent}).  The factor
of a unit is read from the table's written coefficients as exact rationals; nothing here shares
logic with UnitDatabase._MatchQuantities / _DoOperation* / _ConvertWithExp.
"""
from fractions import Fraction as F


class NotAffine(Exception):
    pass


def frac(x):
    """Exact rational of a written literal: Fraction(repr(x)) (so 0.3048 is 3048/10000)."""
    if isinstance(x, F):
        return x
    if isinstance(x, int):
        return F(x)
    return F(repr(float(x)))


def coeffs(info):
    """(a, b, c, d) of the to-base map (a + b x)/(c + d x) of a UnitInfo; identity -> (0,1,1,0)."""
    tb = info.tobase
    if not getattr(tb, "__has_conversion__", True):
        return (F(0), F(1), F(1), F(0))
    try:
        return tuple(frac(getattr(tb, "__%s__" % k)) for k in "abcd")
    except AttributeError:
        # the closure does not carry its written coefficients: read the affine map off three points
        try:
            y0, y1, y2 = float(tb(0.0)), float(tb(1.0)), float(tb(2.0))
        except Exception:
            raise NotAffine(info.unit)
        if not abs((y2 - y1) - (y1 - y0)) <= 1e-12 * max(abs(y0), abs(y1), abs(y2), 1e-300):
            raise NotAffine(info.unit)
        return (frac(y0), frac(y1) - frac(y0), F(1), F(0))


def written_coeffs(info):
    """the to-base coefficients as WRITTEN on the closure; NotAffine when the closure does not carry them"""
    tb = info.tobase
    if not getattr(tb, "__has_conversion__", True):
        return (F(0), F(1), F(1), F(0))
    try:
        return tuple(frac(getattr(tb, "__%s__" % k)) for k in "abcd")
    except AttributeError:
        raise NotAffine(info.unit)


def from_coeffs(info):
    fb = info.frombase
    if not getattr(fb, "__has_conversion__", True):
        return (F(0), F(1), F(1), F(0))
    try:
        return tuple(frac(getattr(fb, "__%s__" % k)) for k in "abcd")
    except AttributeError:
        raise NotAffine(info.unit)


class Model:
    def __init__(self, db):
        self.db = db
        self._c = {}

    def info(self, unit):
        return self.db.unit_to_unit_info[unit]

    def abcd(self, unit):
        c = self._c.get(unit)
        if c is None:
            c = self._c[unit] = coeffs(self.info(unit))
        return c

    def is_scale_only(self, unit):
        a, b, c, d = self.abcd(unit)
        return a == 0 and d == 0

    def factor(self, unit):
        """slope of the to-base map (exact); only meaningful for d == 0."""
        a, b, c, d = self.abcd(unit)
        if d != 0:
            raise NotAffine(unit)
        return b / c

    def offset(self, unit):
        a, b, c, d = self.abcd(unit)
        return a / c

    def tobase(self, unit, x):
        a, b, c, d = self.abcd(unit)
        x = x if isinstance(x, F) else F(x)
        return (a + b * x) / (c + d * x)

    def frombase(self, unit, y):
        """exact inverse of the to-base map (independent of the from-base closure)."""
        a, b, c, d = self.abcd(unit)
        y = y if isinstance(y, F) else F(y)
        # y = (a + b x)/(c + d x)  ->  x = (a - c y)/(d y - b)
        return (a - c * y) / (d * y - b)

    def convert(self, u, v, x):
        return self.frombase(v, self.tobase(u, x))

    # -- quantities ------------------------------------------------------------------------------
    def dimension(self, quantity):
        """{quantity type: exponent} (zero entries dropped) read through the public getters."""
        dim = {}
        for cat, (unit, exp) in quantity.GetCategoryToUnitAndExps().items():
            qt = self.db.GetCategoryQuantityType(cat)
            dim[qt] = dim.get(qt, 0) + exp
        return {k: v for k, v in dim.items() if v != 0}

    def dimkey(self, quantity):
        return tuple(sorted(self.dimension(quantity).items()))

    def scale(self, quantity):
        """product of factor(unit)**exp over the composing units (scale-only units)."""
        s = F(1)
        for _cat, (unit, exp) in quantity.GetCategoryToUnitAndExps().items():
            s *= self.factor(unit) ** exp
        return s

    def base_magnitude(self, quantity, value):
        """magnitude in base units of `value` expressed in `quantity` (exact)."""
        comp = list(quantity.GetCategoryToUnitAndExps().items())
        if len(comp) == 1 and comp[0][1][1] == 1:
            return self.tobase(comp[0][1][0], value)
        return F(value) * self.scale(quantity)


def close(x, y, scale, tol=1e-12):
    """|x - y| <= tol * max(scale, tiny)."""
    x, y, scale = float(x), float(y), abs(float(scale))
    if x == y:
        return True
    return abs(x - y) <= tol * max(scale, 1e-300)
