"""
Reference registry (units, unit order per quantity type, categories) for C14.

A registration returns ("ok", None) or ("reject", hard) and changes the model only when accepted.
hard=True : the property itself demands the rejection (duplicate symbol, unknown quantity type or
            source category, unit outside the type, default value outside the limits, duplicate
            category without override).
hard=False: implementation-defined argument validation (both quantity_type and from_category,
            max < min, exclusive limit without default value); the model follows whatever the
            implementation decides for these (only atomicity is judged).
"""
LEGACY = [
    ("1000ft3", "Mcf"),
    ("1000m3", "Mm3"),
    ("M(ft3)", "MMcf"),
    ("M(m3)", "MMm3"),
    ("k(ft3)", "Mcf"),
    ("Ns/m", "N.s/m"),
    ("lbmole", "lbmol"),
    ("gmole", "gmol"),
]


def fix_legacy(unit):
    for a, b in LEGACY:
        unit = unit.replace(a, b)
    return unit


class RegistryModel:
    def __init__(self):
        self.units = {}  # symbol -> quantity type
        self.order = {}  # quantity type -> [symbols], base first
        self.has_base = set()
        self.categories = {}

    def add_unit(self, qt, symbol, base=False, broken=False):
        if broken:
            return ("reject", False)
        if symbol in self.units:
            return ("reject", True)
        self.units[symbol] = qt
        lst = self.order.setdefault(qt, [])
        if base:
            lst.insert(0, symbol)
            self.has_base.add(qt)
        else:
            lst.append(symbol)
        return ("ok", None)

    def add_category(
        self,
        name,
        qt=None,
        valid_units=None,
        override=False,
        default_unit=None,
        default_value=None,
        min_value=None,
        max_value=None,
        min_excl=False,
        max_excl=False,
        from_category=None,
    ):
        if from_category and qt:
            return ("reject", False)
        if not override and name in self.categories:
            return ("reject", True)
        if min_value is not None and max_value is not None and max_value < min_value:
            return ("reject", False)
        if from_category:
            src = self.categories.get(from_category)
            if src is None:
                return ("reject", True)
            qt = src["quantity_type"]
            if valid_units is None:
                valid_units = src["valid_units"]
            if default_unit is None:
                default_unit = src["default_unit"]
            if default_value is None:
                default_value = src["default_value"]
            if min_value is None:
                min_value = src["min_value"]
            if max_value is None:
                max_value = src["max_value"]
        if qt not in self.order:
            return ("reject", True)
        units = self.order[qt]
        if valid_units is not None:
            valid_units = [fix_legacy(u) for u in valid_units]
            for u in valid_units:
                if u not in units:
                    return ("reject", True)
        if default_unit is None:
            default_unit = units[0]
            if valid_units and default_unit not in valid_units:
                default_unit = valid_units[0]
        else:
            default_unit = fix_legacy(default_unit)
            if default_unit not in units:
                return ("reject", True)
        if default_value is None:
            if min_excl or max_excl:
                return ("reject", False)
            if min_value is not None:
                default_value = min_value
            elif max_value is not None:
                default_value = max_value
            else:
                default_value = 0.0
        else:
            if min_value is not None and not (default_value > min_value if min_excl else default_value >= min_value):
                return ("reject", True)
            if max_value is not None and not (default_value < max_value if max_excl else default_value <= max_value):
                return ("reject", True)
        self.categories[name] = {
            "quantity_type": qt,
            "valid_units": None if valid_units is None else list(valid_units),
            "default_unit": default_unit,
            "default_value": default_value,
            "min_value": min_value,
            "max_value": max_value,
            "min_excl": min_excl,
            "max_excl": max_excl,
            "inherited": bool(from_category),
        }
        return ("ok", None)
