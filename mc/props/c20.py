"""
C20  Derived unit, category and type strings render every factor unambiguously.

Explicit-state search over products/quotients of an atomic basis (no symbol ends in a digit or
contains '.' or '/'); every state's strings are parsed back with an independent grammar and
compared with the composing map.  Plus every (unit, category) of the shipped table as a simple
quantity, and repr/str of the value objects built on it.
"""
from collections import OrderedDict

from barril.units import Array, ObtainQuantity, Quantity, Scalar

from .. import algebra, worlds
from ..par import chunks, run_sharded
from ..ref import unitgrammar as ug
from ..runner import Part

# (the last two: a category / quantity type and a unit name that end with a parenthesis)
BASIS = algebra.BASIS + [("temperature", "K"), ("thermodynamic temperature", "K"), ("activity (of radioactivity)", "Bq"), ("amount of substance", "kgmol")]
VALUES = algebra.PRIMES + [31.0, 37.0]
ATOMS = {u for _c, u in BASIS}


def _expected_units(q):
    """the units with their exponents joined per symbol, from the composing map itself (not from the getter the
    printer reads: both could be wrong together)"""
    d = OrderedDict()
    for _c, (u, e) in q.GetCategoryToUnitAndExps().items():
        d[u] = d.get(u, 0) + e
    joined = [(u, e) for u, e in d.items() if e != 0]
    return [(u, e) for u, e in joined if e > 0] + [(u, e) for u, e in joined if e < 0]


def _ordered(pairs):
    pairs = [(n, e) for n, e in pairs if e != 0]
    return [(n, e) for n, e in pairs if e > 0] + [(n, e) for n, e in pairs if e < 0]


def _sum_by(pairs):
    d = {}
    for n, e in pairs:
        d[n] = d.get(n, 0) + e
    return list(d.items())


def _history_categories(h, negate=False):
    """(categories of the operands, category -> exponent summed over the operands): what the history implies,
    independent of what the result says of itself"""
    i0, rec = algebra._first(h[0])
    d = {BASIS[i0][0]: -1 if rec else 1}
    for op, i in h[1:]:
        c = BASIS[i][0]
        d[c] = d.get(c, 0) + (1 if op == "*" else -1)
    return {c: (-e if negate else e) for c, e in d.items()}


def check_state(part, db, s, hist_desc, hist_expr, want_categories=None):
    q = s.GetQuantity()
    comp = [(c, u, e) for c, (u, e) in q.GetCategoryToUnitAndExps().items()]
    if want_categories is not None:
        # the factors listed are the operands' categories (never a category of some other quantity built before),
        # and per quantity type their exponents add up to what the operands imply (categories of one quantity
        # type cancel against each other: length / depth is dimensionless)
        part.count("evaluations")
        foreign = [c for c, _u, _e in comp if c not in want_categories]
        own, want = {}, {}
        for c, _u, e in comp:
            t = db.GetCategoryQuantityType(c)
            own[t] = own.get(t, 0) + e
        for c, e in want_categories.items():
            t = db.GetCategoryQuantityType(c)
            want[t] = want.get(t, 0) + e
        own = {t: e for t, e in own.items() if e}
        want = {t: e for t, e in want.items() if e}
        if foreign or own != want:
            part.violation("C20:factors:" + hist_desc, {"category": q.GetCategory(), "composing_map_of_the_result": comp, "categories_and_exponents_of_the_operands": sorted(want_categories.items()), "categories_not_among_the_operands": foreign},
                           "from mc import worlds\nfrom barril.units import Scalar\nwith worlds.world('posc') as db:\n    q = (%s).GetQuantity()\n    print(q.GetCategory(), q.GetCategoryToUnitAndExps())\n"
                           "    assert all(c in %r for c in q.GetCategoryToUnitAndExps()), q.GetCategory()\n" % (hist_expr, sorted(want_categories)))
    if not comp:
        return
    simple = len(comp) == 1 and comp[0][2] == 1
    part.count("evaluations", 4)
    snippet = (
        "from mc import worlds\nfrom mc.ref import unitgrammar as ug\nfrom barril.units import Scalar\nwith worlds.world('posc') as db:\n"
        "    q = (%s).GetQuantity()\n    print(repr(q.GetUnit()), repr(q.GetCategory()), repr(q.GetQuantityType()), repr(q.GetUnitName()))\n"
        "    joined = [(u, e) for u, e in q.GetComposingUnitsJoiningExponents() if e]\n"
        "    exp = [t for t in joined if t[1] > 0] + [t for t in joined if t[1] < 0]\n"
        "    assert ug.parse(q.GetUnit(), %r) == exp, (ug.parse(q.GetUnit(), %r), exp)\n" % (hist_expr, sorted(ATOMS), sorted(ATOMS))
    )
    # unit string
    exp_u = _expected_units(q)
    unit = q.GetUnit()
    try:
        got = ug.parse(unit, ATOMS) if exp_u else []
    except ug.ParseError as e:
        got = "unparsable: %s" % e
    if exp_u and got != exp_u:
        part.violation("C20:unit:" + hist_desc, {"unit": unit, "parsed": got, "expected": exp_u}, snippet)
    if exp_u and all(e < 0 for _u, e in exp_u) and not unit.startswith("1/"):
        part.violation("C20:unit-reciprocal-prefix:" + hist_desc, {"unit": unit})
    if simple:
        c, u, _e = comp[0]
        if (q.GetUnit(), q.GetCategory(), q.GetQuantityType()) != (u, c, db.GetCategoryQuantityType(c)):
            part.violation("C20:simple-strings:" + hist_desc, {"got": (q.GetUnit(), q.GetCategory(), q.GetQuantityType())})
    else:
        for what, text, exp in (
            ("category", q.GetCategory(), _ordered([(c, e) for c, _u, e in comp])),
            ("quantity-type", q.GetQuantityType(), _ordered(_sum_by([(db.GetCategoryQuantityType(c), e) for c, _u, e in comp]))),
            ("unit-name", q.GetUnitName(), _ordered(_sum_by([(db.GetUnitName(db.GetCategoryQuantityType(c), u), e) for c, u, e in comp]))),
        ):
            try:
                got = ug.parse_names(text)
            except ug.ParseError as e:
                got = "unparsable: %s" % e
            if got != exp:
                part.violation("C20:%s:%s" % (what, hist_desc), {"text": text, "parsed": got, "expected": exp}, snippet.replace("q.GetUnit(), %r" % sorted(ATOMS), "q.GetUnit(), %r" % sorted(ATOMS)))
            if exp and all(e < 0 for _n, e in exp) and not text.startswith("1 / "):
                part.violation("C20:%s-reciprocal-prefix:%s" % (what, hist_desc), {"text": text})
    # value objects show that unit - also after having been asked for a suffix in another unit
    arr = Array(q, [1.0, 2.0])
    for when in ("", " after GetFormattedSuffix('zz/yy')"):
        r, st = repr(s), str(s)
        if ("'%s'" % unit) not in r or not st.endswith(" [%s]" % unit) or s.GetFormattedSuffix() != " [%s]" % unit:
            part.violation("C20:scalar-repr:" + hist_desc + when, {"repr": r, "str": st, "unit": unit}, snippet.replace("    joined =", "    s = (%s); s.GetFormattedSuffix('zz/yy'); print(str(s)); assert str(s).endswith(' [%%s]' %% q.GetUnit())\n    joined =" % hist_expr))
        if not repr(arr).endswith(", %s)" % unit) or not str(arr).endswith(" [%s]" % unit):
            part.violation("C20:array-repr:" + hist_desc + when, {"repr": repr(arr), "str": str(arr), "unit": unit})
        s.GetFormattedSuffix("zz/yy")
        arr.GetFormattedSuffix("zz/yy")
        Array(q, [3.0]).GetFormattedSuffix("qq")


def _render_simple(part, db, when):
    """Every table unit as a simple quantity renders all its strings (judged: they are the registered ones)."""
    for u, info in db.unit_to_unit_info.items():
        qt = info.quantity_type
        for c in [db.GetDefaultCategory(u)] + ([qt] if db.IsValidCategory(qt) else []):
            if not c:
                continue
            part.count("evaluations")
            try:
                q0 = ObtainQuantity(u, c)
                got = (q0.GetUnit(), q0.GetCategory(), q0.GetQuantityType(), q0.GetUnitName())
                texts = (str(Scalar(q0, 1.0)), repr(Scalar(q0, 1.0)), str(Array(q0, [1.0])))
            except Exception as e:
                part.violation("C20:simple %s:%s:%s:raised" % (when, u, c), {"error": repr(e)})
                continue
            want = (u, c, qt, db.GetUnitName(qt, u))
            if got != want or texts[0] != "1 [%s]" % u or ("'%s'" % u) not in texts[1] or not texts[2].endswith(" [%s]" % u):
                part.violation("C20:simple %s:%s:%s" % (when, u, c), {"unit_category_type_name": got, "registered": want, "texts": texts},
                               "from mc import worlds\nfrom barril.units import Scalar, ObtainQuantity\nwith worlds.world('posc') as db:\n    d = Scalar(2.0, 'm', 'length') * Scalar(3.0, 'm', 'length')\n    d.GetQuantity().GetUnitName()\n"
                               "    q = ObtainQuantity(%r, %r)\n    print(q.GetUnit(), q.GetCategory(), q.GetQuantityType(), q.GetUnitName())\n    assert q.GetUnitName() == db.GetUnitName(%r, %r)\n" % (u, c, qt, u))


def _simple_first_task(depth):
    """In a process in which nothing has been rendered yet: every simple table quantity first, the derived
    quantities afterwards (the other order is the main run)."""
    part = Part()
    with worlds.world("posc") as db:
        _render_simple(part, db, "in a fresh process")

        def on_transition(parent, op, i, res, h):
            if isinstance(res, Exception):
                return  # judged by the main run
            check_state(part, db, res, "after every simple quantity, in a fresh process: " + algebra.describe(h, BASIS, VALUES), algebra.expr(h, BASIS, VALUES), _history_categories(h))
            part.count("states_after_simple_first")

        algebra.explore(db, depth, BASIS, VALUES, on_transition=on_transition, reciprocals=True)
    return part


def _dispatch(task):
    return _simple_first_task(task[1]) if task[0] == "simple first" else _simple_task(task[1])


def _simple_task(qts):
    part = Part()
    with worlds.world("posc") as db:
        cats = {}
        for c, info in db.categories_to_quantity_types.items():
            cats.setdefault(info.quantity_type, []).append(c)
        for qt in qts:
            for u in db.GetUnits(qt):
                for c in cats.get(qt, []):
                    part.count("evaluations")
                    part.count("simple")
                    q = ObtainQuantity(u, c)
                    s = Scalar(1.5, u, c)
                    a = Array([1.5, 2.5], u, c)
                    ok = (
                        (q.GetUnit(), q.GetCategory(), q.GetQuantityType()) == (u, c, qt)
                        and q.GetUnitName() == db.GetUnitName(qt, u)
                        and repr(s) == "Scalar(1.5, '%s', '%s')" % (u, c)
                        and str(s) == "1.5 [%s]" % u
                        and repr(a) == "Array(%s, [1.5, 2.5], %s)" % (qt, u)
                        and str(a) == "1.5 2.5 [%s]" % u
                        and s.GetUnit() == u
                        and a.GetUnit() == u
                    )
                    if ok:
                        # asked for another unit of the type first, an object still shows its own
                        v = db.GetUnits(qt)[0] if db.GetUnits(qt)[0] != u else db.GetUnits(qt)[-1]
                        try:
                            s.GetFormatted(v)
                            a.GetFormattedSuffix(v)
                        except Exception:
                            pass
                        ok = str(s) == "1.5 [%s]" % u and str(a) == "1.5 2.5 [%s]" % u and s.GetFormatted() == "1.5 [%s]" % u and str(Scalar(2.5, u, c)) == "2.5 [%s]" % u
                        # ... whatever the amount is: infinite and undefined amounts show the unit as well
                        for special in (float("inf"), float("-inf"), float("nan"), 0.0, -1e-300, 1e300):
                            ok = ok and str(Scalar(special, u, c)).endswith(" [%s]" % u) and ("'%s'" % u) in repr(Scalar(special, u, c)) and str(Array([special, 1.0], u, c)).endswith(" [%s]" % u)
                    if not ok:
                        part.violation(
                            "C20:simple:%s:%s" % (u, c),
                            {"quantity": (q.GetUnit(), q.GetCategory(), q.GetQuantityType(), q.GetUnitName()), "registered_unit_name": db.GetUnitName(qt, u), "scalar": [repr(s), str(s)], "array": [repr(a), str(a)]},
                            "from mc import worlds\nfrom barril.units import Scalar, Array, ObtainQuantity\nwith worlds.world('posc') as db:\n"
                            "    q = ObtainQuantity(%r, %r); s = Scalar(1.5, %r, %r)\n    print(q.GetUnit(), q.GetCategory(), q.GetQuantityType(), repr(s), str(s))\n"
                            "    assert (q.GetUnit(), q.GetCategory(), q.GetQuantityType()) == (%r, %r, %r) and repr(s) == %r and str(s) == %r\n"
                            % (u, c, u, c, u, c, qt, "Scalar(1.5, '%s', '%s')" % (u, c), "1.5 [%s]" % u),
                        )
    return part


def _registration_strings(part, depth):
    """Every sequence of <= depth steps on a fresh small database in which ONE category is registered again
    under another quantity type between uses: the strings of quantities built afterwards name the quantity
    type the registrations imply (taken from the history, not from a getter that may itself be stale)."""
    import itertools

    from barril.units import UnitDatabase

    BASE = {"length": "m", "time": "s", "volume": "m3"}

    def fresh():
        db = UnitDatabase()
        for qt, u in BASE.items():
            db.AddUnitBase(qt, qt + " unit", u)
            db.AddCategory(qt, qt)
        db.AddCategory("basis", "length")
        return db

    def use(st):
        qt = st["qt"]
        q = ObtainQuantity(BASE[qt], "basis")
        q.GetQuantityType(), q.GetUnitName(), str(Scalar(q, 1.0))
        d = Scalar(2.0, BASE[qt], "basis") / Scalar(4.0, "s", "time")
        d.GetQuantityType(), d.GetUnitName(), d.GetCategory()

    def override(qt):
        def f(st):
            st["db"].AddCategory("basis", qt, override=True)
            st["qt"] = qt

        return f

    STEPS = [("use 'basis' (simple and per time)", use)] + [("AddCategory('basis', %r, override=True)" % qt, override(qt)) for qt in BASE]
    for n in range(1, depth + 1):
        for hist in itertools.product(range(len(STEPS)), repeat=n):
            st = {"db": fresh(), "qt": "length"}
            with worlds.installed(st["db"]):
                for i in hist:
                    STEPS[i][1](st)
                qt = st["qt"]
                u = BASE[qt]
                part.count("evaluations")
                part.count("registration_histories")
                sig = "C20:history: %s" % " ; ".join(STEPS[i][0] for i in hist)
                try:
                    q = ObtainQuantity(u, "basis")
                    simple = (q.GetQuantityType(), q.GetCategory(), q.GetUnit())
                    d = (Scalar(2.0, u, "basis") * Scalar(3.0, u, "basis")) / Scalar(4.0, "s" if qt != "time" else "m", "time" if qt != "time" else "length")
                    derived = (d.GetQuantityType(), d.GetCategory(), d.GetUnit())
                except Exception as e:
                    part.violation(sig + " :: building quantities of the re-registered category raised", {"error": repr(e)})
                    continue
                other_qt, other_u = ("time", "s") if qt != "time" else ("length", "m")
                want_simple = (qt, "basis", u)
                want_derived = ("(%s) ** 2 / %s" % (qt, other_qt), "(basis) ** 2 / %s" % other_qt, "%s2/%s" % (u, other_u))
                if simple != want_simple or derived != want_derived:
                    part.violation(sig + " :: strings do not name the registered quantity type", {"simple": simple, "expected_simple": want_simple, "derived": derived, "expected_derived": want_derived})
                part.add("outcomes", ("reg-strings", qt))


def run(ctx):
    depth = 4 if ctx.thorough else 3
    part = ctx.part
    # forked before this process has rendered anything
    with worlds.world("posc") as db:
        qts = sorted(db.GetQuantityTypes(), key=lambda q: -len(db.GetUnits(q)))
    run_sharded(ctx, _dispatch, [("simple first", depth - 1)] + [("simple", qts[i::16]) for i in range(16)])
    with worlds.world("posc") as db:
        seen = {"n": 0}

        def on_transition(parent, op, i, res, h):
            if isinstance(res, Exception):
                part.violation("C20:raised:" + algebra.describe(h, BASIS, VALUES), {"error": repr(res)})
                return
            check_state(part, db, res, algebra.describe(h, BASIS, VALUES), algebra.expr(h, BASIS, VALUES), _history_categories(h))
            # the reciprocal of every state (number on the left): pure reciprocals with several factors
            try:
                rec = 1.0 / res
            except Exception as e:
                part.violation("C20:raised:1.0 / (%s)" % algebra.describe(h, BASIS, VALUES), {"error": repr(e)})
            else:
                check_state(part, db, rec, "1.0 / (%s)" % algebra.describe(h, BASIS, VALUES), "(1.0 / %s)" % algebra.expr(h, BASIS, VALUES), _history_categories(h, negate=True))
                part.count("reciprocal_states")
                if sum(1 for _c, _u, e in algebra.key_of(rec.GetQuantity()) if e < 0) >= 2 and not any(e > 0 for _c, _u, e in algebra.key_of(rec.GetQuantity())):
                    part.add("nontrivial", ("reciprocal", algebra.key_of(rec.GetQuantity())))
            k = algebra.key_of(res.GetQuantity())
            if sum(1 for _c, _u, e in k if e < 0) >= 2:
                part.add("nontrivial", k)
            part.add("outcomes", res.GetUnit())

        # powers asked with the exponent held in a float (n / 2 ...) before anything else has been composed: refused or
        # not, they must not decide how the integer compositions render afterwards
        for c, u in BASIS:
            for e in (2.0, 3.0, -1.0, 1.0):
                for f in (lambda: ObtainQuantity(u, c) ** e, lambda: Scalar(2.0, u, c) ** e):
                    try:
                        f()
                    except Exception:
                        pass
        part.count("float_exponent_requests_first", 8 * len(BASIS))
        graph, transitions = algebra.explore(db, depth, BASIS, VALUES, on_transition=on_transition, reciprocals=True)
        # the same exploration again in this process AFTER every simple table quantity has rendered all
        # its strings (table symbols such as m2, m/s, 1/s coincide with derived unit strings)
        worlds.clear_caches(db)
        _render_simple(part, db, "after the derived quantities")
        # ... and after DERIVED quantities whose composing units are compound table symbols that render the
        # same text as products of atoms (area m2 per second -> 'm2/s', velocity m/s times kg -> 'm/s.kg')
        compound = [("m2", "area"), ("cm2", "area"), ("m3", "volume"), ("m/s", "velocity"), ("1/s", "frequency"), ("kg/m3", "density"), ("m/s2", "acceleration linear")]
        rendered = 0
        for cu, cc in compound:
            for c, u in BASIS:
                for f in (lambda: Scalar(2.0, cu, cc) * Scalar(3.0, u, c), lambda: Scalar(2.0, cu, cc) / Scalar(3.0, u, c), lambda: Scalar(3.0, u, c) / Scalar(2.0, cu, cc), lambda: Scalar(2.0, cu, cc) * Scalar(2.0, cu, cc)):
                    try:
                        r = f()
                        r.GetUnitName(), r.GetUnit(), r.GetCategory(), r.GetQuantityType(), str(r), repr(r)
                        rendered += 1
                    except Exception:
                        pass
        part.count("compound_symbol_quantities_rendered_first", rendered)
        part.count("simple_quantities_rendered_first", len(db.unit_to_unit_info))
        _g2, t2 = algebra.explore(db, depth, BASIS, VALUES, on_transition=on_transition, reciprocals=True)
        transitions += t2
        # quantities holding two units of one quantity type (obtainable only from a hand-made composing map)
        from .c04 import MIXED

        for name, entries in MIXED + [("{length: m^2, depth: cm^-1}", [("length", ["m", 2]), ("depth", ["cm", -1])])]:
            for form, mkq in (("Quantity.CreateDerived", lambda: Quantity.CreateDerived(OrderedDict((c, list(ue)) for c, ue in entries))), ("ObtainQuantity", lambda: ObtainQuantity(OrderedDict((c, list(ue)) for c, ue in entries)))):
                try:
                    sm = Scalar(mkq(), 2.0)
                except Exception as e:
                    part.violation("C20:raised:Scalar(%s(%s), 2.0)" % (form, name), {"error": repr(e)})
                    continue
                check_state(part, db, sm, "Scalar(%s(%s), 2.0)" % (form, name), "Scalar(Quantity.CreateDerived(OrderedDict(%r)), 2.0)" % (entries,), {c: ue[1] for c, ue in entries})
                part.count("mixed_unit_quantities")
        for st in graph[: len(BASIS)]:
            check_state(part, db, st.scalar, algebra.describe(st.history, BASIS, VALUES), algebra.expr(st.history, BASIS, VALUES))
        deepest = graph[-1]
        part.sample({"history": algebra.describe(deepest.history, BASIS, VALUES), "unit": deepest.scalar.GetUnit(), "category": deepest.scalar.GetCategory(), "quantity_type": deepest.scalar.GetQuantityType(), "unit_name": deepest.scalar.GetUnitName()})
        for st in graph[40:44]:
            part.sample({"history": algebra.describe(st.history, BASIS, VALUES), "unit": st.scalar.GetUnit(), "category": st.scalar.GetCategory()}, cap=5)
    _registration_strings(part, 4 if ctx.thorough else 3)
    ctx.level = "model_checking"
    ctx.states = len(graph)
    ctx.transitions = transitions + part.counters.get("simple", 0)
    ctx.traces = ctx.transitions
    ctx.rule = (
        "BFS (three times: on a cold database, after every simple table quantity has rendered its strings - judged too -, and to depth-1 in a fresh process where the simple quantities render first) over products/quotients from %d atomic (category, unit) atoms and their reciprocals to depth %d, every transition's result and its reciprocal (1.0 / state) parsed back; plus every (unit, category) "
        "of the table as a simple quantity; non-trivial = distinct composing maps with at least two denominator factors; outcomes = distinct unit strings"
        % (len(BASIS), depth)
    )
    ctx.coverage_extra = {"max_depth": depth, "alphabet": {"atoms": BASIS, "ops": ["*", "/"]}, "simple_unit_category_pairs": part.counters.get("simple", 0)}
    ctx.assumptions = [
        "composing units are atomic table symbols (no digit suffix, '.', '/'), as the property states",
        "the parser (mc/ref/unitgrammar.py) is the table's own symbol grammar and shares no code with barril's printers",
    ]
