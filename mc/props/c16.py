"""
C16  Legacy unit spellings are exact aliases and never capture current units.

Input space (complete): every legacy spelling derivable from the substitution list for every table
unit (each non-empty subset of the occurrences of a current fragment replaced by each legacy fragment
that maps to it), every entry point that takes a unit string, both request orders (legacy first on
a cold cache / current first), and every one of the current symbols of the table through the
rewrite once and twice.

Oracle: the object built from the legacy spelling == the one built from the current spelling and
reports the current symbol; conversions give identical floats; the rewrite is idempotent; no current
symbol is rewritten; a legacy spelling never resolves to a *different* registered unit.
"""
import itertools

import numpy as np

from barril.units import Array, FixedArray, FractionScalar, ObtainQuantity, Scalar, UnitDatabase
from barril.units.unit_database import _LEGACY_TO_CURRENT, FixUnitIfIsLegacy

from .. import worlds
from ..par import run_sharded
from ..runner import HarnessError, Part


def legacy_spellings(units):
    """-> sorted list of (legacy spelling, current symbol); derived from the substitution list"""
    out = set()
    for u in units:
        for legacy, current in _LEGACY_TO_CURRENT:
            # positions of the current fragment in u
            pos = []
            i = u.find(current)
            while i >= 0:
                pos.append(i)
                i = u.find(current, i + len(current))
            for r in range(1, len(pos) + 1):
                for chosen in itertools.combinations(pos, r):
                    s = u
                    for p in sorted(chosen, reverse=True):
                        s = s[:p] + legacy + s[p + len(current):]
                    if s != u and s not in units:
                        out.add((s, u))
    return sorted(out)


def _eq(part, sig, what, a, b, snippet=None):
    part.count("evaluations")
    try:
        ok = a == b
        if isinstance(ok, np.ndarray):
            ok = bool(ok.all())
    except Exception as e:
        part.violation(sig + ":" + what + ":comparison raised", {"error": repr(e)}, snippet)
        return False
    if not ok:
        part.violation(sig + ":" + what + ":differs from the current spelling", {"legacy": repr(a), "current": repr(b)}, snippet)
        return False
    return True


def entry_points(db, qt, cat):
    """name -> callable(unit string) -> comparable result (objects, floats, tuples)"""
    units = db.GetUnits(qt)
    other = units[0]

    def fresh_category(u):
        d = UnitDatabase()
        d.AddUnitBase(qt, "base", other)
        for info in db.GetInfos(qt):
            if info.unit != other:
                d.AddUnit(qt, info.name, info.unit, info.frombase, info.tobase)
        info = d.AddCategory("newcat", qt, valid_units=[u], default_unit=u)
        return (info.valid_units, info.default_unit, d.GetValidUnits("newcat"), d.GetDefaultUnit("newcat"))

    def fresh_category_valid_only(u):
        d = UnitDatabase()
        d.AddUnitBase(qt, "base", other)
        for info in db.GetInfos(qt):
            if info.unit != other:
                d.AddUnit(qt, info.name, info.unit, info.frombase, info.tobase)
        lst = [other, u]
        info = d.AddCategory("newcat", qt, valid_units=lst)
        return (info.valid_units, info.default_unit)

    E = [
        ("ObtainQuantity(u)", lambda u: ObtainQuantity(u)),
        ("ObtainQuantity(u, category)", lambda u: ObtainQuantity(u, cat)),
        ("ObtainQuantity([(u, 1)], [category])", lambda u: ObtainQuantity([(u, 1)], [cat])),
        ("Scalar(v, u)", lambda u: Scalar(1.5, u)),
        ("Scalar(v, u, category)", lambda u: Scalar(1.5, u, cat)),
        ("Scalar(category, v, u)", lambda u: Scalar(cat, 1.5, u)),
        ("Scalar((v, u))", lambda u: Scalar((1.5, u))),
        ("Scalar(category, unit=u)", lambda u: Scalar(cat, unit=u)),
        ("Array(list, u)", lambda u: Array([1.5, -2.0], u)),
        ("Array(category, ndarray, u)", lambda u: Array(cat, np.array([1.5, -2.0]), u)),
        ("FixedArray(2, tuple, u)", lambda u: FixedArray(2, (1.5, -2.0), u)),
        ("FractionScalar(v, u)", lambda u: FractionScalar(1.5, u)),
        ("FractionScalar(category, v, u)", lambda u: FractionScalar(cat, 1.5, u)),
        ("Scalar.CreateCopy(unit=u)", lambda u: Scalar(1.5, other, cat).CreateCopy(unit=u)),
        ("Scalar.CreateCopy(unit=u, category=c)", lambda u: Scalar(1.5, other, cat).CreateCopy(unit=u, category=cat)),
        ("Array.CreateCopy(unit=u)", lambda u: Array([1.5, -2.0], other, cat).CreateCopy(unit=u)),
        ("FractionScalar.CreateCopy(unit=u)", lambda u: FractionScalar(1.5, other, cat).CreateCopy(unit=u)),
        ("Scalar.GetValue(u)", lambda u: Scalar(1.5, other, cat).GetValue(u)),
        ("Array.GetValues(u)", lambda u: list(Array([1.5, -2.0], other, cat).GetValues(u))),
        ("Array[ndarray].GetValues(u)", lambda u: [float(x) for x in Array(np.array([1.5, -2.0]), other, cat).GetValues(u)]),
        ("FractionScalar.GetValue(u)", lambda u: float(FractionScalar(1.5, other, cat).GetValue(u))),
        ("Quantity.Convert(v, u)", lambda u: ObtainQuantity(other, cat).Convert(2.5, u)),
        ("db.Convert(qt, u, other, v)", lambda u: db.Convert(qt, u, other, 2.5)),
        ("db.Convert(qt, other, u, v)", lambda u: db.Convert(qt, other, u, 2.5)),
        ("db.Convert(category, u, other, v)", lambda u: db.Convert(cat, u, other, 2.5)),
        ("db.Convert(qt, u, u, v)", lambda u: db.Convert(qt, u, u, 2.5)),
        ("db.Convert(qt, u, other, ndarray)", lambda u: [float(x) for x in db.Convert(qt, u, other, np.array([2.5, -1.0]))]),
        ("db.Convert(qt, u, other, list)", lambda u: db.Convert(qt, u, other, [2.5, -1.0])),
        ("db.GetDefaultCategory(u)", lambda u: db.GetDefaultCategory(u)),
        ("db.GetInfo(qt, u).unit", lambda u: db.GetInfo(qt, u).unit),
        ("db.CheckValueForCategory(category, v, u)", lambda u: db.CheckValueForCategory(cat, 1.0, u)),
        ("AddCategory(valid_units=[u], default_unit=u)", fresh_category),
        ("AddCategory(valid_units=[other, u])", fresh_category_valid_only),
        ("Scalar arithmetic", lambda u: Scalar(1.5, u, cat) + Scalar(2.0, other, cat)),
        ("Scalar comparison", lambda u: Scalar(1.5, u, cat) < Scalar(2.0, u, cat)),
    ]
    return E


def _unit_of(obj):
    for name in ("GetUnit",):
        f = getattr(obj, name, None)
        if f is not None:
            return f()
    return None


class _StrSubclass(str):
    pass


def _task(task):
    if task[0] == "histories":
        return _small_histories(task[1])
    pairs, thorough = task
    part = Part()
    with worlds.world("posc") as db:
        for legacy, current in pairs:
            qt = db.GetQuantityType(current)
            cat = db.GetDefaultCategory(current)
            is_legacy, fixed = FixUnitIfIsLegacy(legacy)
            part.count("evaluations")
            sig0 = "C16:%s (legacy of %s)" % (legacy, current)
            if not is_legacy or fixed != current:
                part.violation(sig0 + ":rewrite does not give the current symbol", {"rewritten": fixed})
                continue
            again = FixUnitIfIsLegacy(fixed)
            if again != (False, fixed):
                part.violation(sig0 + ":rewrite is not idempotent", {"second": again})
            part.add("nontrivial", legacy)
            for order in ("legacy first", "current first", "legacy given as numpy.str_ first", "legacy given as an instance of a str subclass first"):
                # (a unit read from a numpy string array or taken from a str-based Enum is still that spelling)
                lg = legacy if "given as" not in order else (np.str_(legacy) if "numpy" in order else _StrSubclass(legacy))
                for name, f in entry_points(db, qt, cat):
                    worlds.clear_caches(db)
                    sig = "%s:%s:%s" % (sig0, name, order)
                    snippet = None
                    res = {}
                    cur = current if lg is legacy else type(lg)(current)  # (compared in the same string type: some entry points only take plain str)
                    for which, u in (("current", cur), ("legacy", lg)) if order == "current first" else (("legacy", lg), ("current", cur)):
                        try:
                            res[which] = ("ok", f(u))
                        except Exception as e:
                            res[which] = ("raise", e)
                    if res["current"][0] == "raise":
                        # the entry point does not apply to this unit at all (e.g. no default category): not judged
                        if res["legacy"][0] != "raise":
                            part.violation(sig + ":legacy accepted where the current spelling is rejected", {"current": repr(res["current"][1]), "legacy": repr(res["legacy"][1])})
                        part.count("not_applicable_entry")
                        continue
                    if res["legacy"][0] == "raise" and lg is not legacy and isinstance(res["legacy"][1], TypeError) and "Only str is accepted" in str(res["legacy"][1]):
                        # this entry point takes plain str only (it lets a str subclass through just when the request
                        # happens to be cached): the string type, not the spelling, is what it refuses
                        part.count("not_applicable_entry")
                        continue
                    if res["legacy"][0] == "raise":
                        part.count("evaluations")
                        part.violation(
                            sig + ":legacy spelling rejected",
                            {"error": repr(res["legacy"][1])},
                            "from mc import worlds\nfrom mc.props import c16\nwith worlds.world('posc') as db:\n    f = dict(c16.entry_points(db, %r, %r))[%r]\n    print(f(%r))\n    print(f(%r))\n" % (qt, cat, name, current, legacy),
                        )
                        continue
                    a, b = res["legacy"][1], res["current"][1]
                    if _eq(part, sig, "result", a, b):
                        ua = _unit_of(a)
                        if ua is not None and ua != current:
                            part.violation(sig + ":object reports the legacy symbol", {"unit": ua})
                    part.add("outcomes", (name, type(a).__name__))
            if False:
                pass
            if thorough:
                for v in db.GetUnits(qt):
                    for x in (1.0, -2.5, 1e6):
                        part.count("evaluations")
                        try:
                            r1 = (db.Convert(qt, legacy, v, x), db.Convert(qt, v, legacy, x), Scalar(x, legacy).GetValue(v), Scalar(x, v).GetValue(legacy))
                        except Exception as e:
                            part.violation(sig0 + ":conversion with %s raised" % v, {"error": repr(e)})
                            break
                        r2 = (db.Convert(qt, current, v, x), db.Convert(qt, v, current, x), Scalar(x, current).GetValue(v), Scalar(x, v).GetValue(current))
                        # v may be the current spelling of the same unit: the same-unit shortcut is taken on
                        # the spelling, so the legacy request makes a round trip through the base unit -
                        # equal up to rounding is what "same conversion results" can mean there
                        if r1 != r2 and not all(abs(p - q) <= 1e-12 * max(abs(p), abs(q)) for p, q in zip(r1, r2)):
                            part.violation(sig0 + ":conversion with %s differs" % v, {"legacy": r1, "current": r2})
        _other_categories(part, db, pairs)
    return part


def _current_symbols(part, db):
    units = list(db.unit_to_unit_info)
    for u in units:
        part.count("evaluations")
        part.count("current_symbols")
        r = FixUnitIfIsLegacy(u)
        if r != (False, u):
            part.violation("C16:current symbol %s is rewritten" % u, {"rewritten": r}, "from barril.units.unit_database import FixUnitIfIsLegacy\nprint(FixUnitIfIsLegacy(%r))\nassert FixUnitIfIsLegacy(%r) == (False, %r)\n" % (u, u, u))
        # a current symbol resolves to itself everywhere
        q = ObtainQuantity(u) if db.GetDefaultCategory(u) else None
        if q is not None and q.GetUnit() != u:
            part.violation("C16:current symbol %s resolves to another unit" % u, {"unit": q.GetUnit()})
    return len(units)


# -- histories -------------------------------------------------------------------------------------


def _other_categories(part, db, pairs):
    """a legacy spelling used with an explicit NON-default category first (cold cache), then category-less
    requests with either spelling: both must still resolve the default category"""
    cats = {}
    for c, info in db.categories_to_quantity_types.items():
        cats.setdefault(info.quantity_type, []).append(c)
    for legacy, current in pairs:
        qt = db.GetQuantityType(current)
        dc = db.GetDefaultCategory(current)
        for c2 in cats.get(qt, []):
            if c2 == dc:
                continue
            for prelude_name, prelude in (
                ("Scalar(1, legacy, c2)", lambda: Scalar(1.0, legacy, c2)),
                ("ObtainQuantity(legacy, c2)", lambda: ObtainQuantity(legacy, c2)),
                ("Scalar(1, current, c2).CreateCopy(unit=legacy)", lambda: Scalar(1.0, current, c2).CreateCopy(unit=legacy)),
                ("Array([1], legacy, c2)", lambda: Array([1.0], legacy, c2)),
            ):
                worlds.clear_caches(db)
                part.count("evaluations")
                sig = "C16:%s (legacy of %s):%s with category %r first" % (legacy, current, prelude_name, c2)
                try:
                    first = prelude()
                except Exception as e:
                    part.violation(sig + ":raised", {"error": repr(e)})
                    continue
                if first.GetCategory() != c2 or first.GetUnit() != current:
                    part.violation(sig + ":built another quantity", {"object": repr(first), "category": first.GetCategory()})
                    continue
                for qname, f in (("ObtainQuantity(current)", lambda: ObtainQuantity(current)), ("ObtainQuantity(legacy)", lambda: ObtainQuantity(legacy)), ("Scalar(1, current)", lambda: Scalar(1.0, current)), ("Scalar(1, legacy)", lambda: Scalar(1.0, legacy)), ("Array([1], current)", lambda: Array([1.0], current))):
                    part.count("evaluations")
                    try:
                        o = f()
                    except Exception as e:
                        part.violation(sig + ":then %s raised" % qname, {"error": repr(e)})
                        break
                    if o.GetCategory() != dc or o.GetUnit() != current:
                        part.violation(
                            sig + ":then %s resolves category %r instead of the default %r" % (qname, o.GetCategory(), dc),
                            {"object": repr(o)},
                            "from mc import worlds\nfrom barril.units import *\nfrom barril.units import ObtainQuantity\nwith worlds.world('posc') as db:\n    Scalar(1.0, %r, %r)\n    q = ObtainQuantity(%r)\n    print(q.GetCategory(), db.GetDefaultCategory(%r))\n    assert q.GetCategory() == db.GetDefaultCategory(%r)\n" % (legacy, c2, current, current, current),
                        )
                        break
                part.add("outcomes", ("other-category-first", prelude_name))
    worlds.clear_caches(db)


def _small_world():
    from barril.units.posc import MakeBaseToCustomary, MakeCustomaryToBase

    db = UnitDatabase()
    db.AddUnitBase("volume", "cubic metre", "m3")
    db.AddUnit("volume", "thousand cubic feet", "Mcf", MakeBaseToCustomary(0.0, 28.31685, 1.0, 0.0), MakeCustomaryToBase(0.0, 28.31685, 1.0, 0.0))
    db.AddUnitBase("amount of substance", "mole", "mol")
    db.AddUnit("amount of substance", "pound mole", "lbmol", MakeBaseToCustomary(0.0, 453.5924, 1.0, 0.0), MakeCustomaryToBase(0.0, 453.5924, 1.0, 0.0))
    return db


SMALL = [("1000ft3", "Mcf", "volume", "m3"), ("k(ft3)", "Mcf", "volume", "m3"), ("lbmole", "lbmol", "amount of substance", "mol")]


def _small_steps(legacy, current, qt, base):
    """name -> (kind, callable(db, unit spelling)) ; kind R = registration (spelling-independent), Q = query"""
    from barril.units.posc import MakeBaseToCustomary, MakeCustomaryToBase

    return [
        ("R:AddCategory(qt, qt)", "R", lambda db, u: db.AddCategory(qt, qt)),
        ("R:AddCategory('other', qt)", "R", lambda db, u: db.AddCategory("other", qt)),
        ("R:AddCategory('limited', qt, valid_units=[u], default_unit=u)", "RQ", lambda db, u: repr(db.AddCategory("limited", qt, valid_units=[u], default_unit=u))),
        ("R:AddCategory('child', from_category='limited', valid_units=<the list GetValidUnits('limited') returned, u appended>)", "RQ",
         lambda db, u: (lambda lst: (lst.append(u), repr((db.AddCategory("child", from_category="limited", valid_units=lst).valid_units, db.GetValidUnits("child"))))[1])(db.GetValidUnits("limited"))),
        ("R:AddCategory('child2', from_category='limited', valid_units=[base, u])", "RQ", lambda db, u: repr((db.AddCategory("child2", from_category="limited", valid_units=[base, u]).valid_units, db.GetValidUnits("child2")))),
        ("R:AddCategory('child3', from_category='limited', default_unit=u)", "RQ", lambda db, u: repr((db.AddCategory("child3", from_category="limited", default_unit=u).default_unit, db.GetDefaultUnit("child3")))),
        ("R:AddUnit(qt, 'x')", "R", lambda db, u: db.AddUnit(qt, "ex", "x", MakeBaseToCustomary(0.0, 2.0, 1.0, 0.0), MakeCustomaryToBase(0.0, 2.0, 1.0, 0.0))),
        ("Q:db.GetDefaultCategory(u)", "Q", lambda db, u: db.GetDefaultCategory(u)),
        ("Q:ObtainQuantity(u)", "Q", lambda db, u: ObtainQuantity(u)),
        ("Q:ObtainQuantity(u, qt)", "Q", lambda db, u: ObtainQuantity(u, qt)),
        ("Q:ObtainQuantity(u, 'other')", "Q", lambda db, u: ObtainQuantity(u, "other")),
        ("Q:Scalar(1, u)", "Q", lambda db, u: Scalar(1.0, u)),
        ("Q:db.Convert(qt, u, base, 2)", "Q", lambda db, u: db.Convert(qt, u, base, 2.0)),
        ("Q:db.GetInfo(qt, u).unit", "Q", lambda db, u: db.GetInfo(qt, u).unit),
        ("P:db.CheckCategoryUnit(qt, u)", "P", lambda db, u: db.CheckCategoryUnit(qt, u)),  # prelude only: documented NOT to accept legacy spellings
    ]


def _canon(v):
    if hasattr(v, "GetCategory"):
        return (type(v).__name__, v.GetCategory(), v.GetUnit(), v.GetQuantityType(), getattr(v, "value", None))
    return v


def _small_histories(task):
    """Every sequence of <= 3 steps (registrations and queries written with the LEGACY spelling) on a fresh
    small database, ended by a query: the answer for the legacy spelling must equal the answer for the
    current spelling after the very same history (twin database)."""
    depth = task
    part = Part()
    for legacy, current, qt, base in SMALL:
        steps = _small_steps(legacy, current, qt, base)
        for n in range(0, depth):
            for prefix in itertools.product(range(len(steps)), repeat=n):
                for li, (lname, lkind, lf) in enumerate(steps):
                    if "Q" not in lkind:
                        continue
                    outs = []
                    for final_spelling in (legacy, current):
                        db = _small_world()
                        with worlds.installed(db):
                            for i in prefix:
                                try:
                                    steps[i][2](db, legacy)
                                except Exception:
                                    pass
                            try:
                                outs.append(("ok", _canon(lf(db, final_spelling))))
                            except Exception:
                                outs.append(("raise", "rejected"))  # the exception class is not part of the property
                    part.count("evaluations", 2)
                    part.count("histories")
                    a, b = outs
                    if a != b:
                        part.violation(
                            "C16:history(%s for %s): %s ; then %s" % (legacy, current, " ; ".join(steps[i][0] for i in prefix), lname),
                            {"legacy": repr(outs[0]), "current": repr(outs[1])},
                        )
                    part.add("outcomes", ("history", lname, a[0]))
                    if any(steps[i][1].startswith("R") for i in prefix):
                        part.add("nontrivial", ("h", legacy, prefix, li))
    return part


def _compound_spellings(part):
    """Spellings an application may register: compounds of TWO or THREE fragments of the substitution list (legacy or
    current form each), joined by '/' or '.', e.g. 'lbmole/1000ft3' for an application unit 'lbmol/Mcf'.  The rewrite
    replaces every legacy fragment (reference: fragment-wise replacement of the parts), flags the spelling as legacy
    iff some part was legacy, and is idempotent; then the same on a small database that registers the current compound:
    every spelling of it resolves to that unit."""
    from barril.units import ObtainQuantity, UnitDatabase
    from barril.units import Scalar as _Scalar

    frags = []
    for legacy, current in _LEGACY_TO_CURRENT:
        frags.append((legacy, current, True))
        if (current, current, False) not in frags:
            frags.append((current, current, False))
    combos = [c for n in (2, 3) for c in itertools.product(frags, repeat=n)]
    registered = 0
    for combo in combos:
        for sep in ("/", "."):
            spelling = sep.join(f[0] for f in combo)
            want = sep.join(f[1] for f in combo)
            any_legacy = any(f[2] for f in combo)
            part.count("evaluations")
            got = FixUnitIfIsLegacy(spelling)
            sig = "C16:compound spelling %s" % spelling
            snip = "from barril.units.unit_database import FixUnitIfIsLegacy\nr = FixUnitIfIsLegacy(%r)\nprint(r); assert r == (%r, %r)\nassert FixUnitIfIsLegacy(r[1]) == (False, r[1])\n" % (spelling, any_legacy, want)
            if got != (any_legacy, want):
                part.violation(sig + ":rewrite does not replace every legacy fragment", {"rewritten": got, "expected": (any_legacy, want)}, snip)
                continue
            if FixUnitIfIsLegacy(got[1]) != (False, want):
                part.violation(sig + ":rewrite is not idempotent", {"second": FixUnitIfIsLegacy(got[1])}, snip)
                continue
            part.add("nontrivial", spelling)
            if len(combo) == 2 and any_legacy and sep == "/":
                # an application database that registers the current compound: the legacy spelling is that unit
                db = UnitDatabase()
                db.AddUnitBase("app ratio", "app base", "app0")
                db.AddUnit("app ratio", "app compound", want, "%f * 2.0", "%f / 2.0")
                db.AddCategory("app ratio", "app ratio")
                UnitDatabase.PushSingleton(db)
                try:
                    registered += 1
                    def observe(u):
                        try:
                            return (_Scalar(3.0, u).GetUnit(), ObtainQuantity(u).GetUnit(), db.Convert("app ratio", u, "app0", 3.0), db.Convert("app ratio", "app0", u, 3.0), db.GetDefaultCategory(u), _Scalar(3.0, u, "app ratio").GetValue("app0"))
                        except Exception as e:
                            return repr(e)

                    obs, ref = observe(spelling), observe(want)
                    if obs != ref or not isinstance(ref, tuple) or ref[0] != want:
                        part.violation(sig + ":an application unit %s is not reached through its legacy spelling" % want, {"observed": obs, "with_current_spelling": ref})
                finally:
                    UnitDatabase.PopSingleton()
    part.count("compound_spellings_on_app_database", registered)


def run(ctx):
    with worlds.world("posc") as db:
        units = set(db.unit_to_unit_info)
        pairs = legacy_spellings(units)
        n_units = _current_symbols(ctx.part, db)
    if len(pairs) < 30:
        raise HarnessError("only %d legacy spellings derived" % len(pairs))
    tasks = [(pairs[i::16], ctx.thorough) for i in range(16)]
    tasks.append(("histories", 4 if ctx.thorough else 3))
    run_sharded(ctx, _task, tasks)
    _compound_spellings(ctx.part)
    ctx.level = "exploration"
    ctx.rule = (
        "complete product: every legacy spelling derivable from the %d substitutions for the %d table units (%d spellings) x 35 entry points x 2 request orders on a cold cache%s; every current symbol through the rewrite; "
        "every compound of 2 or 3 substitution fragments (legacy or current form, '/' or '.') through the rewrite (replaces every fragment, idempotent), the two-fragment ones also as a unit of an application database; "
        "every legacy spelling used with every non-default category of its type first (cold cache) and then category-less; every sequence of <= 2 (thorough 3) registrations/legacy queries on a fresh small database ended by a query, legacy vs current on twin databases; non-trivial = distinct legacy spellings; outcomes = (entry point, result type)" % (len(_LEGACY_TO_CURRENT), n_units, len(pairs), " x every conversion target of the type x 3 values" if ctx.thorough else "")
    )
    ctx.coverage_extra = {"legacy_spellings": len(pairs), "substitutions": len(_LEGACY_TO_CURRENT), "current_symbols": n_units, "spellings_sample": pairs[:8]}
    ctx.part.sample({"legacy": pairs[0][0], "current": pairs[0][1]})
    ctx.part.sample({"legacy": pairs[-1][0], "current": pairs[-1][1]})
    ctx.assumptions = [
        "the substitution list is read from barril (it defines what a legacy spelling is); derived spellings that coincide with a registered symbol are not legacy spellings",
        "an entry point that rejects the current spelling too (unit without default category) is not judged for that unit",
    ]
