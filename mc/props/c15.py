"""
C15  Queries are pure and caches are semantically invisible.

Explicit-state BFS over interleavings of registrations, read-only operations and failing
operations on a small hand-registered database (rebuilt for every history).
  (i)  warm = fresh: the canonical outcome of every transition h -> h.op equals the outcome of op
       on a FRESH database built by replaying only the registration operations of h;
  (ii) purity: around every non-registration step the registry fingerprint taken through the
       public getters is unchanged.
"""
from collections import OrderedDict

# the histories of this check run on hand-registered databases rebuilt per history: the warm regime of the
# thorough tier (worlds.warm_up on the shipped table) would only repeat the same exploration
WARM_REGIME = False

import numpy as np

from barril.units import Array, FractionScalar, ObtainQuantity, Quantity, Scalar, UnitDatabase
from barril.units.posc import CreateAreaQuantityFromLengthQuantity, CreateVolumeQuantityFromLengthQuantity, MakeBaseToCustomary, MakeCustomaryToBase

from .. import explorer, par, worlds
from ..runner import Part
from . import c14


def _c(a, b, c, d):
    return MakeBaseToCustomary(a, b, c, d), MakeCustomaryToBase(a, b, c, d)


def build_world():
    db = UnitDatabase(default_singleton=True)
    db.AddUnitBase("length", "metre", "m")
    db.AddUnit("length", "centimetre", "cm", *_c(0.0, 0.01, 1.0, 0.0))
    db.AddUnit("length", "kilometre", "km", *_c(0.0, 1000.0, 1.0, 0.0))
    db.AddUnitBase("time", "second", "s")
    db.AddUnit("time", "minute", "min", *_c(0.0, 60.0, 1.0, 0.0))
    db.AddUnitBase("volume", "cubic metre", "m3")
    db.AddUnit("volume", "million cubic metres", "Mm3", *_c(0.0, 1e6, 1.0, 0.0))  # ('1000m3' is a legacy spelling of this symbol)
    db.AddUnitBase("area", "square metre", "m2")
    db.AddCategory("length", "length")
    db.AddCategory("depth", "length", valid_units=["m"])
    db.AddCategory("time", "time", valid_units=["s"])
    db.AddCategory("duration", "time")  # no valid units of its own: falls back to the list of category 'time'
    db.AddCategory("volume", "volume")
    db.AddCategory("area", "area")
    db.AddUnitBase("Unknown", "<unknown>", "<unknown>")  # as the shipped table does
    db.AddCategory("Unknown", "Unknown", valid_units=["<unknown>"])
    return db


# -- registrations ---------------------------------------------------------------------------------
REG = OrderedDict(
    [
        ("AddUnit(length, x)", lambda db: db.AddUnit("length", "ex", "x", *_c(0.0, 2.0, 1.0, 0.0))),
        ("AddUnit(time, x)", lambda db: db.AddUnit("time", "ex", "x", *_c(0.0, 3.0, 1.0, 0.0))),
        ("AddUnit(volume, cm3)", lambda db: db.AddUnit("volume", "cubic centimetre", "cm3", *_c(0.0, 1e-6, 1.0, 0.0))),
        ("AddCategory(depth, length, override, min_value=0)", lambda db: db.AddCategory("depth", "length", override=True, min_value=0.0)),
        ("AddCategory(depth, time, override)", lambda db: db.AddCategory("depth", "time", override=True)),
        ("AddCategory(length, length, override, default_unit=cm, default_value=5, max_value=100)", lambda db: db.AddCategory("length", "length", override=True, default_unit="cm", default_value=5.0, max_value=100.0)),
        ("AddCategory(new, length)", lambda db: db.AddCategory("new", "length")),
        ("AddUnit(length, bananas)", lambda db: db.AddUnit("length", "bananas", "bananas", *_c(0.0, 0.2, 1.0, 0.0))),
        # a unit whose symbol is, letter for letter, a legacy spelling of another unit ('1000m3' -> 'Mm3')
        ("AddUnit(volume, 1000m3)", lambda db: db.AddUnit("volume", "thousand cubic metres (explicit)", "1000m3", *_c(0.0, 1000.0, 1.0, 0.0))),
        ("AddUnit(length, m) [rejected]", lambda db: db.AddUnit("length", "dup", "m", *_c(0.0, 1.0, 1.0, 0.0))),
        ("AddCategory(length, length) [rejected]", lambda db: db.AddCategory("length", "length")),
    ]
)


def _q(u, c=None):
    return ObtainQuantity(u, c)


def _cube(db):
    s = Scalar(2.0, "cm", "length")
    return (s * s * s) * Scalar(3.0, "m", "length")


# -- queries (closed terms) --------------------------------------------------------------------------
QUERIES = OrderedDict(
    [
        ("Scalar(1,'km','depth').GetValidUnits()", lambda db: Scalar(1.0, "km", "depth").GetValidUnits()),
        ("Array([1],'cm','depth').GetValidUnits()", lambda db: Array([1.0], "cm", "depth").GetValidUnits()),
        ("ObtainQuantity('km','depth').GetValidUnits()", lambda db: ObtainQuantity("km", "depth").GetValidUnits()),
        ("db.GetValidUnits('depth')", lambda db: db.GetValidUnits("depth")),
        ("db.GetValidUnits('length')", lambda db: db.GetValidUnits("length")),
        ("db.GetValidUnits('new')", lambda db: db.GetValidUnits("new")),
        ("db.GetUnits('length')", lambda db: db.GetUnits("length")),
        ("Scalar(1,'min','duration').GetValidUnits()", lambda db: Scalar(1.0, "min", "duration").GetValidUnits()),
        ("Array([1],'min','duration').GetValidUnits()", lambda db: Array(np.array([1.0]), "min", "duration").GetValidUnits()),
        ("db.GetValidUnits('duration')", lambda db: db.GetValidUnits("duration")),
        ("db.GetValidUnits('time')", lambda db: db.GetValidUnits("time")),
        ("db.CheckCategoryUnit('new','m')", lambda db: db.CheckCategoryUnit("new", "m")),
        ("db.CheckCategoryUnit('new','s')", lambda db: db.CheckCategoryUnit("new", "s")),
        ("db.CheckCategoryUnit('depth','x')", lambda db: db.CheckCategoryUnit("depth", "x")),
        ("db.CheckCategoryUnit('depth','s')", lambda db: db.CheckCategoryUnit("depth", "s")),
        ("db.CheckCategoryUnit('length','km')", lambda db: db.CheckCategoryUnit("length", "km")),
        ("db.CheckQuantityTypeUnit('length','x')", lambda db: db.CheckQuantityTypeUnit("length", "x")),
        ("db.GetCategoryInfo('new')", lambda db: repr(db.GetCategoryInfo("new"))),
        ("db.IsValidCategory('new')", lambda db: db.IsValidCategory("new")),
        ("Scalar(1,'m','length')", lambda db: Scalar(1.0, "m", "length")),
        ("Scalar(1,'x','length')", lambda db: Scalar(1.0, "x", "length")),
        ("Scalar(1,'x','time')", lambda db: Scalar(1.0, "x", "time")),
        ("Scalar(1,'x','depth')", lambda db: Scalar(1.0, "x", "depth")),
        ("Scalar(1,'s','length')", lambda db: Scalar(1.0, "s", "length")),
        ("Scalar(1,'s','depth')", lambda db: Scalar(1.0, "s", "depth")),
        ("Scalar(1,'m','new')", lambda db: Scalar(1.0, "m", "new")),
        ("Scalar(1,'x')", lambda db: Scalar(1.0, "x")),
        ("Scalar(1,'cm3')", lambda db: Scalar(1.0, "cm3")),
        ("Scalar(2,'km').IsValid()", lambda db: Scalar(2.0, "km").IsValid()),
        ("ObtainQuantity('1000m3','volume') unit and name", lambda db: (lambda q: (q.GetUnit(), q.GetUnitName()))(ObtainQuantity("1000m3", "volume"))),
        ("Scalar(2,'1000m3').GetValue('m3')", lambda db: (lambda x: (x.GetUnit(), x.GetValue("m3")))(Scalar(2.0, "1000m3"))),
        # a label that is not a registered unit, in the Unknown quantity type and elsewhere
        ("Scalar(1.5,'<unknown>','Unknown').GetValue('bananas')", lambda db: Scalar(1.5, "<unknown>", "Unknown").GetValue("bananas")),
        ("db.Convert('Unknown','bananas','apples',[1.0])", lambda db: db.Convert("Unknown", "bananas", "apples", [1.0])),
        ("db.GetQuantityType('bananas')", lambda db: db.GetQuantityType("bananas")),
        ("db.GetDefaultCategory('bananas')", lambda db: db.GetDefaultCategory("bananas")),
        ("Scalar(1,'bananas')", lambda db: Scalar(1.0, "bananas")),
        ("Scalar(1,'bananas','length').GetValue('m')", lambda db: Scalar(1.0, "bananas", "length").GetValue("m")),
        ("Array([1,200],'cm').IsValid()", lambda db: Array([1.0, 200.0], "cm").IsValid()),
        ("ObtainQuantity('m')", lambda db: ObtainQuantity("m")),
        ("ObtainQuantity('cm','depth')", lambda db: ObtainQuantity("cm", "depth")),
        ("ObtainQuantity(None,'depth')", lambda db: ObtainQuantity(None, "depth")),
        ("ObtainQuantity(None,'length')", lambda db: ObtainQuantity(None, "length")),
        ("db.GetDefaultCategory('x')", lambda db: db.GetDefaultCategory("x")),
        ("db.GetDefaultUnit('length')", lambda db: db.GetDefaultUnit("length")),
        ("db.Convert('length','km','cm',2)", lambda db: db.Convert("length", "km", "cm", 2.0)),
        ("db.Convert('depth','m','km',2)", lambda db: db.Convert("depth", "m", "km", 2.0)),
        ("db.Convert('length','m','s',1)", lambda db: db.Convert("length", "m", "s", 1.0)),
        ("db.Convert('length','x','m',1)", lambda db: db.Convert("length", "x", "m", 1.0)),
        ("Scalar(1,'km','depth').GetValue('m')", lambda db: Scalar(1.0, "km", "depth").GetValue("m")),
        ("Scalar(1,'m','depth').GetValue('s')", lambda db: Scalar(1.0, "m", "depth").GetValue("s")),
        ("db.CheckValueForCategory('depth',-1,'m')", lambda db: db.CheckValueForCategory("depth", -1.0, "m")),
        ("db.CheckValueForCategory('depth',1,'x')", lambda db: db.CheckValueForCategory("depth", 1.0, "x")),
        ("Scalar('depth')", lambda db: Scalar("depth")),
        ("Scalar('length')", lambda db: Scalar("length")),
        ("Scalar('length', unit='m')", lambda db: Scalar("length", unit="m")),
        ("Scalar('new')", lambda db: Scalar("new")),
        ("Scalar(-1,'m','depth').IsValid()", lambda db: Scalar(-1.0, "m", "depth").IsValid()),
        ("Array([1,-1],'km','depth').IsValid()", lambda db: Array([1.0, -1.0], "km", "depth").IsValid()),
        ("FractionScalar('depth',-1.0,'m').IsValid()", lambda db: FractionScalar("depth", -1.0, "m").IsValid()),
        ("m*m", lambda db: Scalar(2.0, "m", "length") * Scalar(3.0, "m", "depth")),
        ("m+cm", lambda db: Scalar(2.0, "m", "length") + Scalar(3.0, "cm", "depth")),
        ("m+s", lambda db: Scalar(2.0, "m", "length") + Scalar(3.0, "s", "time")),
        ("m/s", lambda db: Scalar(2.0, "m", "depth") / Scalar(4.0, "s", "time")),
        ("CreateVolumeQuantityFromLengthQuantity(cm)", lambda db: CreateVolumeQuantityFromLengthQuantity(ObtainQuantity("cm", "length"))),
        ("CreateAreaQuantityFromLengthQuantity(km)", lambda db: CreateAreaQuantityFromLengthQuantity(ObtainQuantity("km", "length"))),
        ("CreateDerived({length:(km,2)}) * m", lambda db: Quantity.CreateDerived(OrderedDict([("length", ("km", 2))])) * ObtainQuantity("m", "length")),
        ("(cm*cm*cm)*m", _cube),
        ("(km*km)*m", lambda db: (Scalar(2.0, "km", "length") * Scalar(2.0, "km", "length")) * Scalar(3.0, "m", "length")),
        ("1.0/Scalar(2,'m')", lambda db: 1.0 / Scalar(2.0, "m", "length")),
        ("Quantity.CreateEmpty()*ObtainQuantity('m')", lambda db: Quantity.CreateEmpty() * ObtainQuantity("m", "length")),
        ("Scalar.CreateEmptyScalar(2)+Scalar(1,'m')", lambda db: Scalar.CreateEmptyScalar(2.0) + Scalar(1.0, "m", "length")),
    ]
)

OPS = [("R", k) for k in REG] + [("Q", k) for k in QUERIES]
QUICK_SKIP = set()


def canonical(v):
    """Canonical, comparable form of an outcome value."""
    if isinstance(v, Quantity):
        try:
            info = repr(v.GetCategoryInfo())  # what the quantity knows about its category (limits, default unit, ...)
        except Exception as e:
            info = type(e).__name__
        return ("Quantity", v.GetCategory(), v.GetUnit(), v.GetQuantityType(), tuple((c, tuple(ue)) for c, ue in v.GetCategoryToUnitAndExps().items()), v.GetUnknownCaption(), info)
    if isinstance(v, (Scalar, FractionScalar)):
        return (type(v).__name__, repr(v), v.GetQuantityType(), canonical(v.GetQuantity()), v.IsValid())
    if isinstance(v, Array):
        return (type(v).__name__, tuple(float(x) for x in v.values), canonical(v.GetQuantity()))
    if isinstance(v, np.ndarray):
        return ("ndarray", tuple(v.tolist()))
    if isinstance(v, (list, tuple)):
        return (type(v).__name__,) + tuple(canonical(x) for x in v)
    if isinstance(v, (float, int, str, bool)) or v is None:
        return v
    return repr(v)


def _other_database(db):
    """The program also works with ANOTHER database for a moment (PushSingleton / PopSingleton), using the
    dimensionless quantity there; nothing is asked of `db` itself."""
    other = UnitDatabase(default_singleton=True)
    other.AddUnitBase("mass", "kilogram", "kg")
    other.AddCategory("mass", "mass")
    UnitDatabase.PushSingleton(other)
    try:
        r = (repr(Quantity.CreateEmpty()), repr(Scalar.CreateEmptyScalar(2.0) * Scalar(3.0, "kg")), repr(2.0 / Array([4.0], "kg")))
    finally:
        UnitDatabase.PopSingleton()
    # ... and in two databases that give the SAME symbols and categories other meanings (length, depth, time:
    # other sizes in one, base units only in the other)
    worlds._light_interlude()
    return r


QUERIES["<work with another database: empty quantity, empty Scalar * kg, 2 / Array(kg)>"] = _other_database
def _mix(db):
    return Quantity.CreateDerived(OrderedDict([("length", ["m", 1]), ("depth", ["cm", 1])]))


QUERIES["Scalar(MIX{length:m,depth:cm},2)+(m*depth(m))"] = lambda db: Scalar(_mix(db), 2.0) + Scalar(1.0, "m", "length") * Scalar(1.0, "m", "depth")
QUERIES["Scalar(MIX,2)-Scalar(1,'s') [fails]"] = lambda db: Scalar(_mix(db), 2.0) - Scalar(1.0, "s", "time")
QUERIES["Scalar(MIX,60)**2"] = lambda db: Scalar(_mix(db), 60.0) ** 2
QUERIES["Quantity.CreateDerived(MIX)"] = lambda db: _mix(db)
QUERIES["Array.CreateEmptyArray([2])*Array([1],'m','new')"] = lambda db: Array.CreateEmptyArray([2.0]) * Array([1.0], "m", "new")
QUERIES["Quantity.CreateEmpty()*ObtainQuantity('m','new')"] = lambda db: Quantity.CreateEmpty() * ObtainQuantity("m", "new")
QUERIES["Scalar.CreateEmptyScalar(2).GetUnitDatabase() is db"] = lambda db: Scalar.CreateEmptyScalar(2.0).GetUnitDatabase() is db
OPS = [("R", k) for k in REG] + [("Q", k) for k in QUERIES]


def run_op(db, op):
    kind, name = op
    f = REG[name] if kind == "R" else QUERIES[name]
    # process-wide state is reset once per history (make / fresh_outcome), NOT between the steps of a history
    with worlds.installed(db, keep_globals=True):
        try:
            return ("ok", canonical(f(db)))
        except Exception as e:
            return ("raise", type(e).__name__)


class Sys:
    def __init__(self):
        self.db = build_world()
        self.regs = ()  # registration ops applied so far (in order)
        self.queries = 0
        self.qset = frozenset()  # queries executed so far (fallback state identity when the caches cannot be read)
        self.broken = False


def make():
    worlds.reset_globals()
    return Sys()


def cache_fp(db):
    """Hashing only: what the caches hold (falls back to None when the private names are gone)."""
    try:
        q = tuple(sorted((repr(k), canonical(v)) for k, v in db.quantities_cache.items()))
        m = tuple(sorted(db._category_unit_valid.items()))
        return (q, m)
    except AttributeError:
        return None


def canon(s):
    if s.broken:
        return "BROKEN"
    c = cache_fp(s.db)
    return (c14.fingerprint(s.db), c if c is not None else tuple(sorted(s.qset)))


_FRESH = {}


def fresh_outcome(regs, op):
    key = (regs, op)
    r = _FRESH.get(key)
    if r is None:
        saved = Quantity._EMPTY_QUANTITY
        worlds.reset_globals()  # a fresh process has no process-wide state either
        db = build_world()
        for name in regs:
            run_op(db, ("R", name))
        worlds.clear_caches(db)
        r = _FRESH[key] = run_op(db, op)
        Quantity._EMPTY_QUANTITY = saved  # the warm history continues with ITS process-wide state
    return r


def apply(s, op, part, hist):
    if s.broken:
        return False
    db = s.db
    pre = c14.fingerprint(db) if part is not None else None
    cf = cache_fp(db) if part is not None else None
    warm_nonempty = part is not None and (bool(cf[0] or cf[1]) if cf is not None else s.queries > 0)
    out = run_op(db, op)
    regs_before = s.regs
    if op[0] == "R":
        s.regs = s.regs + (op[1],)
    else:
        s.queries += 1
        s.qset = s.qset | {op[1]}
    if part is None:
        return True
    part.count("evaluations")
    hist_ops = [OPS[i] for i in hist] + [op]
    sig = "C15:%s" % " ; ".join(o[1] for o in hist_ops)

    def bad(what, detail):
        s.broken = True
        part.violation(sig + " :: " + what, detail, "import sys\nfrom mc.props import c15\nsys.exit(c15.replay(%r))\n" % ([list(o) for o in hist_ops],))

    exp = fresh_outcome(regs_before, op)
    if out != exp:
        bad("warm!=fresh", {"warm": out, "fresh": exp, "registrations_replayed_on_fresh": list(regs_before)})
        return True
    if op[0] == "Q":
        post = c14.fingerprint(db)
        if post != pre:
            bad("query-changed-registry", {"before": pre, "after": post})
            return True
    elif out[0] == "raise":
        part.count("rejected")
        if c14.fingerprint(db) != pre:
            bad("rejected-registration-changed-registry", {"before": pre, "after": c14.fingerprint(db)})
            return True
    if warm_nonempty:
        part.count("nontrivial_transitions")
        part.add("nontrivial", explorer.digest((hist, op)))
    part.add("outcomes", explorer.digest(out))
    return True


def replay(hist_ops):
    part = Part()
    s = make()
    idx = []
    for op in hist_ops:
        op = tuple(op)
        regs_before = s.regs
        apply(s, op, part, tuple(idx))
        idx.append(OPS.index(op))
        print(op[1], "| fresh outcome:", fresh_outcome(regs_before, op))
    for v in part.violations:
        print("MISMATCH", v["signature"], v["detail"])
    return 1 if part.violations else 0


def _stale_task(task):
    """Histories  q1.. ; r1.. ; (q1 again, then every other query)  on one database: a query answered before a
    registration, the registration(s), and then everything that could have been remembered from before.  The BFS
    merges the state after a query with the state before it whenever the caches it can read are unchanged; these
    histories do not rely on that."""
    part = Part()
    nq = [i for i, o in enumerate(OPS) if o[0] == "Q"]
    for prefix, regs in task:
        s = make()
        hist = []
        seq = list(prefix) + list(regs)
        seq += [i for i in prefix if OPS[i][0] == "Q"][::-1] + [i for i in nq if i not in prefix]
        for i in seq:
            if not apply(s, OPS[i], part, tuple(hist)):
                break
            hist.append(i)
            part.count("stale_steps")
        part.count("stale_histories")
    return part


def _stale_histories(ctx):
    nq = [i for i, o in enumerate(OPS) if o[0] == "Q"]
    nr = [i for i, o in enumerate(OPS) if o[0] == "R"]
    regs = [(r,) for r in nr] + [(a, b) for a in nr for b in nr if a != b]
    prefixes = [()] + [(q,) for q in nq]
    if ctx.thorough:
        prefixes += [(a, b) for a in nq for b in nq if a != b]
    tasks = [(p, r) for p in prefixes for r in regs]
    par.run_sharded(ctx, _stale_task, par.chunks(tasks, ctx.procs * 4))


def run(ctx):
    depth = 5 if ctx.thorough else 3
    res = explorer.bfs(ctx, make, apply, OPS, canon, max_depth=depth, lookahead=2)
    _stale_histories(ctx)
    ctx.level = "model_checking"
    ctx.states = res["states"]
    ctx.transitions = res["transitions"]
    ctx.traces = res["transitions"]
    ctx.exhaustive = True
    ctx.part.sample({"deepest_history": [OPS[i][1] for i in res["deepest"]]})
    ctx.part.sample({"registrations": list(REG), "queries": list(QUERIES)})
    ctx.rule = (
        "BFS to depth %d over %d registrations + %d closed query terms on a small database rebuilt per history; every transition's outcome compared with the same operation on a fresh database "
        "holding the same registrations; plus every history  (no / one%s earlier query) ; (one or two registrations) ; (the earlier queries again, then every other query)  run on one database with the same oracle; non-trivial = transitions taken from a state whose caches were non-empty; outcomes = distinct canonical outcomes" % (depth, len(REG), len(QUERIES), " / two" if ctx.thorough else "")
    )
    ctx.nontrivial = ctx.part.counters.get("nontrivial_transitions", 0)
    ctx.coverage_extra = {
        "fixpoint": res["fixpoint"],
        "max_depth": res["depth"],
        "open_frontier": res["open_frontier"],
        "rejected_registrations": ctx.part.counters.get("rejected", 0),
        "alphabet": {"registrations": len(REG), "queries": len(QUERIES)},
        "query_registration_query_histories": ctx.part.counters.get("stale_histories", 0),
        "query_registration_query_steps": ctx.part.counters.get("stale_steps", 0),
    }
    ctx.assumptions = [
        "objects do not persist between operations (each operation is a closed term): a value object created before a registration and used after it is outside this check",
        "state hashing reads quantities_cache and _category_unit_valid (hash only); the oracle uses public calls",
        "a negative memo entry written by a rejected lookup is not by itself a change (it is unobservable unless a registration follows, which the histories include)",
    ]
