"""
C02  All conversion routes agree and keep physical value, category and type.

For every quantity type, every ordered unit pair (u, v), categories c of that type and a value
tuple X, every public route that re-expresses an amount is compared, element by element, with
R0 = db.Convert(qt, u, v, float x); result objects must keep category, quantity type and carry
unit v.  quick: all pairs with the unit's default category + all categories on the pairs
(default unit of the category, v); thorough: all pairs x all categories.  Own-unit queries on simple
and derived objects; category defaults in a world with non-zero defaults in non-base units.
"""
import numpy as np

from barril.units import Array, ChangeScalars, FixedArray, FractionScalar, ObtainQuantity, Scalar, UnitDatabase
from barril.units.unit_system_manager import UnitSystemManager

from .. import algebra, worlds
from ..par import chunks, run_sharded
from ..ref.dims import close
from ..runner import Part

X = (0.0, 1.0, -2.5, 1e6)
TOL = 1e-12


class Owner:
    pass


def _snip(qt, u, v, c, expr, what="value"):
    return (
        "import numpy as np\nfrom mc import worlds\nfrom barril.units import *\nfrom barril.units import FractionScalar, FixedArray, ChangeScalars\nfrom barril.units.unit_system_manager import UnitSystemManager\n"
        "with worlds.world('posc') as db:\n    qt, u, v, c, x = %r, %r, %r, %r, -2.5\n    r0 = db.Convert(qt, u, v, x)\n    r = %s\n    print('route:', r, ' db.Convert:', r0)\n"
        "    val = r.value if hasattr(r, 'value') else r\n    assert abs(float(val) - r0) <= 1e-12 * max(abs(r0), abs(db.Convert(qt, u, v, 0.0)), 1e-300), (val, r0)\n"
        "    if hasattr(r, 'GetCategory'):\n        assert (r.GetCategory(), r.GetQuantityType(), r.GetUnit()) == (c, qt, v), (r.GetCategory(), r.GetQuantityType(), r.GetUnit())\n" % (qt, u, v, c, expr)
    )


def _zoo_expr(zname):
    return {
        "int32": "np.array([0, 1, -3, 1000], dtype=np.int32)", "int64": "np.array([0, 1, -3, 1000], dtype=np.int64)", "float32": "np.array([0.0, 1.0, -2.5, 1000.0], dtype=np.float32)",
        "2-d C order": "np.array([0.0, 1.0, -2.5, 1e6]).reshape(2, 2)", "2-d Fortran order": "np.asfortranarray(np.array([0.0, 1.0, -2.5, 1e6]).reshape(2, 2))",
        "2-d transposed view": "np.arange(6.0).reshape(2, 3).T", "strided view": "np.arange(8.0)[::2]", "reversed view": "np.arange(4.0)[::-1]", "0-d": "np.array(2.5)",
    }[zname]


_OTHER = {}


def _other_category(db, qt, c):
    """another category of the same quantity type (None when there is none)"""
    key = (id(db), qt)
    if key not in _OTHER:
        _OTHER[key] = sorted(k for k, info in db.categories_to_quantity_types.items() if info.quantity_type == qt)
    for k in _OTHER[key]:
        if k != c:
            return k
    return None


def check_pair(part, db, qt, u, v, c, full=True):
    """All routes for one (qt, u, v, c)."""
    conv = db.Convert
    r0 = [conv(qt, u, v, x) for x in X]
    off = abs(r0[0])
    q_u = ObtainQuantity(u, c)
    q_v = ObtainQuantity(v, c)

    def same(a, b, i):
        return close(a, b, max(abs(b), off), TOL)

    def bad(route, got, exp, expr=None):
        part.violation("C02:%s:%s:%s->%s:%s" % (route, qt, u, v, c), {"route": got, "db.Convert": exp}, _snip(qt, u, v, c, expr) if expr else None)

    def obj_ok(o):
        return o.GetCategory() == c and o.GetQuantityType() == qt and o.GetUnit() == v

    n = 0
    for i, x in enumerate(X):
        e = r0[i]
        s = Scalar(x, u, c)
        # R1
        n += 1
        g = s.GetValue(v)
        if not same(g, e, i):
            bad("Scalar.GetValue", g, e, "Scalar(x, u, c).GetValue(v)")
        # R2
        n += 1
        cp = s.CreateCopy(unit=v)
        if not same(cp.value, e, i) or not obj_ok(cp):
            bad("Scalar.CreateCopy(unit)", repr(cp), e, "Scalar(x, u, c).CreateCopy(unit=v)")
        # R4
        n += 2
        g = q_u.ConvertScalarValue(x, v)
        if not same(g, e, i):
            bad("Quantity.ConvertScalarValue", g, e, "ObtainQuantity(u, c).ConvertScalarValue(x, v)")
        g = q_u.Convert(x, v)
        if not same(g, e, i):
            bad("Quantity.Convert", g, e, "ObtainQuantity(u, c).Convert(x, v)")
        if not full:
            continue
        # R3
        n += 1
        o = Owner()
        o.s = s
        ChangeScalars(o, s=(None, v))
        if not same(o.s.value, e, i) or not obj_ok(o.s) or s.value != x or s.GetUnit() != u:
            bad("ChangeScalars", repr(o.s), e)
        # R9 exponent path
        n += 1
        g = conv(qt, [(u, 1)], [(v, 1)], x)
        if not same(g, e, i):
            bad("db.Convert(exponent lists)", g, e, "db.Convert(qt, [(u, 1)], [(v, 1)], x)")
        # ... one side given as a plain symbol, the quantity type wrapped in a one-element list
        for what, f in (("db.Convert(qt, u, [(v, 1)], x)", lambda: conv(qt, u, [(v, 1)], x)), ("db.Convert(qt, [(u, 1)], v, x)", lambda: conv(qt, [(u, 1)], v, x)), ("db.Convert([qt], [(u, 1)], [(v, 1)], x)", lambda: conv([qt], [(u, 1)], [(v, 1)], x))):
            n += 1
            try:
                g = f()
            except Exception as ex:
                g = repr(ex)
            if not (isinstance(g, float) and same(g, e, i)):
                bad("db.Convert(exponent lists, mixed forms)", g, e, what)
        # category name instead of the quantity type
        n += 1
        g = conv(c, u, v, x)
        if not same(g, e, i):
            bad("db.Convert(by category)", g, e, "db.Convert(c, u, v, x)")
    if not full:
        part.count("evaluations", n)
        return
    # the exponent-list route with exponents other than 1, in an order that revisits |n| with both signs
    # (scale-only pairs: the amount in u**n re-expressed in v**n is x * slope**n)
    base_u = db.GetBaseUnit(qt)
    if conv(qt, u, base_u, 0.0) == 0 and conv(qt, v, base_u, 0.0) == 0:  # (no offset on either side, not merely equal offsets)
        slope = conv(qt, u, v, 1.0)
        # (and the pair really is scale-only: a fractional-linear unit without offset maps 0 to 0 too)
        linear = close(conv(qt, u, v, 2.0), 2.0 * slope, abs(2.0 * slope), 1e-11) and close(conv(qt, u, v, -3.0), -3.0 * slope, abs(3.0 * slope), 1e-11)
        if slope > 0 and 1e-60 < slope < 1e60 and linear:
            for ne in (2, -2, 3, -3, -1, 2, -3):
                for x in (1.0, 2.5, -2.5, 0.25):
                    n += 1
                    e = x * slope**ne
                    try:
                        g = conv(qt, [(u, ne)], [(v, ne)], x)
                    except Exception as ex:
                        g = repr(ex)
                    if not (isinstance(g, float) and close(g, e, abs(e), 1e-11)):
                        bad("db.Convert(exponent lists, exponent %d)" % ne, g, e, "db.Convert(qt, [(u, %d)], [(v, %d)], x)" % (ne, ne))
                        break
    # ints
    for xi in (1, -2, 1000000):
        n += 1
        g = conv(qt, u, v, xi)
        e = conv(qt, u, v, float(xi))
        if not close(g, e, max(abs(e), off), TOL):
            bad("db.Convert(int)", g, e)
    # containers through db.Convert and Array.GetValues
    for kind, mk in (("list", list), ("tuple", tuple), ("ndarray", lambda t: np.array(t, dtype=float))):
        for vals, exp in (((), []), ((X[2],), [r0[2]]), (X, r0)):
            n += 2
            cont = mk(vals)
            g = conv(qt, u, v, cont)
            okc = type(g) is type(cont) and len(g) == len(exp) and all(same(a, b, 0) for a, b in zip(g, exp))
            if not okc:
                bad("db.Convert(%s len %d)" % (kind, len(vals)), repr(g), exp)
            arr = Array(mk(vals), u, c)
            g = arr.GetValues(v)
            okc = type(g) is type(cont) and len(g) == len(exp) and all(same(a, b, 0) for a, b in zip(g, exp))
            if not okc:
                bad("Array.GetValues(%s len %d)" % (kind, len(vals)), repr(g), exp, "Array(%s, u, c).GetValues(v)[0]" % ({"list": "[x]", "tuple": "(x,)", "ndarray": "np.array([x])"}[kind]))
            if len(vals) == len(X):
                # a copy with NEW values in another unit answers for its own values (asked for the
                # source's unit, for its own unit, and copied back)
                n += 3
                newv = [y * 3.0 + 1.0 for y in vals]
                cp2 = arr.CreateCopy(values=mk(newv), unit=v)
                back = [conv(qt, v, u, y) for y in newv]
                zero_b = abs(conv(qt, v, u, 0.0))
                g = cp2.GetValues(u)
                if not (cp2.GetUnit() == v and cp2.GetCategory() == c and len(g) == len(back) and all(close(a, b, max(abs(b), zero_b), TOL) for a, b in zip(g, back))):
                    bad("Array.CreateCopy(values, unit).GetValues(source unit) %s" % kind, repr(g), back, "Array(%s, u, c).CreateCopy(values=%s, unit=v).GetValues(u)[0]" % ({"list": "[x]", "tuple": "(x,)", "ndarray": "np.array([x])"}[kind], {"list": "[3 * x + 1]", "tuple": "(3 * x + 1,)", "ndarray": "np.array([3 * x + 1])"}[kind]))
                if list(cp2.GetValues(v)) != newv or list(cp2.GetValues()) != newv:
                    bad("Array.CreateCopy(values, unit).GetValues(own unit) %s" % kind, repr(cp2.GetValues(v)), newv)
                g = cp2.CreateCopy(unit=u).GetValues()
                if not all(close(a, b, max(abs(b), zero_b), TOL) for a, b in zip(g, back)):
                    bad("Array.CreateCopy(values, unit).CreateCopy(unit) %s" % kind, repr(g), back)
                n += 1
                cp = arr.CreateCopy(unit=v)
                if not obj_ok(cp) or not all(same(a, b, 0) for a, b in zip(cp.GetValues(), exp)) or list(arr.GetValues()) != list(vals):
                    bad("Array.CreateCopy(unit) %s" % kind, repr(cp), exp)
    # ndarray varieties: dtype and memory layout are invisible to == on the amounts but not to a converter
    base4 = np.array(X, dtype=float)
    zoo = [
        ("int32", np.array([0, 1, -3, 1000], dtype=np.int32), 1e-12),
        ("int64", np.array([0, 1, -3, 1000], dtype=np.int64), 1e-12),
        ("float32", np.array([0.0, 1.0, -2.5, 1000.0], dtype=np.float32), 1e-6),
        ("2-d C order", base4.reshape(2, 2).copy(), 1e-12),
        ("2-d Fortran order", np.asfortranarray(base4.reshape(2, 2)), 1e-12),
        ("2-d transposed view", np.arange(6.0).reshape(2, 3).T, 1e-12),
        ("strided view", np.arange(8.0)[::2], 1e-12),
        ("reversed view", np.arange(4.0)[::-1], 1e-12),
        ("0-d", np.array(2.5), 1e-12),
    ]
    for zname, za, ztol in zoo:
        n += 2
        exp = np.vectorize(lambda y: conv(qt, u, v, float(y)), otypes=[float])(za)
        if zname == "float32":
            # float32 in, float32 arithmetic: judged only where that arithmetic can hold the amounts (no offset
            # whose cancellation eats the 7 digits, magnitudes inside the float32 range)
            mags = [abs(e) for e in exp.ravel() if e != 0] + [abs(conv(qt, u, db.GetBaseUnit(qt), float(y))) for y in za.ravel() if y != 0]
            if off != 0 or conv(qt, v, u, 0.0) != 0 or any(not (1e-30 < m < 1e30) for m in mags):
                continue
        for route, f in (("db.Convert", lambda: conv(qt, u, v, za)), ("Array.GetValues", lambda: Array(za, u, c).GetValues(v))):
            try:
                g = np.asarray(f(), dtype=float)
                okz = g.shape == exp.shape and bool(np.all(np.abs(g - exp) <= ztol * np.maximum(np.abs(exp), off) + 1e-300))
            except Exception as e:
                g, okz = repr(e), False
            if not okz:
                bad("%s(ndarray %s)" % (route, zname), repr(g), exp.tolist(), "(lambda a: %s)(%s)" % ("db.Convert(qt, u, v, a)" if route == "db.Convert" else "Array(a, u, c).GetValues(v)", _zoo_expr(zname)))
    # the caller refills ITS buffer in place and asks again; and scribbles on a returned container and asks again
    n += 3
    buf = np.array(X, dtype=float)
    conv(qt, u, v, buf)
    buf[:] = [y * 3.0 + 1.0 for y in X]
    g = conv(qt, u, v, buf)
    exp2 = [conv(qt, u, v, y * 3.0 + 1.0) for y in X]
    if not all(same(a, b, 0) for a, b in zip(g, exp2)):
        bad("db.Convert(the same ndarray object refilled in place)", repr(g), exp2)
    for kind, mk in (("list", list), ("ndarray", lambda t: np.array(t, dtype=float))):
        arr = Array(mk(X), u, c)
        first = arr.GetValues(v)
        if u != v and first is not arr.GetValues():  # (an identity conversion hands out the array's own container, as the own-unit query does)
            for i in range(len(first)):
                first[i] = 12345.0  # the caller owns what it was given
        g = arr.GetValues(v)
        if not all(same(a, b, 0) for a, b in zip(g, r0)) or list(arr.GetValues()) != list(X):
            bad("Array.GetValues(%s) after the caller edited the previous answer" % kind, repr(g), r0)
    # list of tuples / tuple of tuples
    for outer in (list, tuple):
        n += 1
        lot = outer([(X[0], X[1]), (X[2], X[3])])
        g = Array(lot, u, c).GetValues(v)
        flat = [y for t in g for y in t]
        if type(g) is not outer or not all(isinstance(t, tuple) for t in g) or not all(same(a, b, 0) for a, b in zip(flat, r0)) or len(flat) != 4:
            bad("Array.GetValues(%s of tuples)" % outer.__name__, repr(g), r0)
    # ... rows of different lengths keep their shape
    for outer in (list, tuple):
        n += 1
        rag = outer([(X[0],), (X[1], X[2]), (X[3],)])
        try:
            g = Array(rag, u, c).GetValues(v)
            shape = [len(t) for t in g]
            flat = [y for t in g for y in t]
        except Exception as ex:
            g, shape, flat = repr(ex), None, []
        if shape != [1, 2, 1] or not all(same(a, b, 0) for a, b in zip(flat, r0)):
            bad("Array.GetValues(%s of tuples of different lengths)" % outer.__name__, repr(g), r0)
    # ... a copy in another unit AND another category of the type still carries the converted amount
    c2 = _other_category(db, qt, c)
    if c2 is not None:
        for i, x in enumerate(X):
            n += 1
            cp = Scalar(x, u, c).CreateCopy(unit=v, category=c2)
            if not same(cp.value, r0[i], i) or cp.GetCategory() != c2 or cp.GetUnit() != v:
                bad("Scalar.CreateCopy(unit, other category %s)" % c2, repr(cp), r0[i])
        n += 1
        acp = Array(list(X), u, c).CreateCopy(unit=v, category=c2)
        if not all(same(a, b, 0) for a, b in zip(acp.GetValues(), r0)) or acp.GetCategory() != c2 or acp.GetUnit() != v:
            bad("Array.CreateCopy(unit, other category %s)" % c2, repr(acp), r0)
    # R7 FixedArray
    fa = FixedArray(4, q_u, list(X))
    for i in (0, 2, -1):
        n += 1
        s = fa.IndexAsScalar(i, q_v)
        if not same(s.value, r0[i], i) or not obj_ok(s):
            bad("FixedArray.IndexAsScalar", repr(s), r0[i], "FixedArray(4, ObtainQuantity(u, c), [0.0, 1.0, x, 1e6]).IndexAsScalar(2, ObtainQuantity(v, c))")
    n += 1
    fnew = [y * 3.0 + 1.0 for y in X]
    fcp = fa.CreateCopy(values=list(fnew), unit=v)
    fback = [conv(qt, v, u, y) for y in fnew]
    zb = abs(conv(qt, v, u, 0.0))
    g = [fcp.IndexAsScalar(i, q_u).value for i in range(4)]
    if not all(close(a, b, max(abs(b), zb), TOL) for a, b in zip(g, fback)) or not all(close(a, b, max(abs(b), zb), TOL) for a, b in zip(fcp.GetValues(u), fback)):
        bad("FixedArray.CreateCopy(values, unit) then IndexAsScalar / GetValues(source unit)", g, fback)
    for uvu in (True, False):
        n += 1
        # put an amount given in v at index 1; the array is expressed in v (True) or stays in u (False)
        r = fa.ChangingIndex(1, Scalar(r0[2], v, c), use_value_unit=uvu)
        if uvu:
            okc = obj_ok(r) and r.GetValues()[1] == r0[2] and all(same(r.GetValues()[j], r0[j], j) for j in (0, 2, 3))
        else:
            back = conv(qt, v, u, r0[2])
            okc = r.GetUnit() == u and r.GetCategory() == c and close(r.GetValues()[1], back, max(abs(back), abs(conv(qt, v, u, 0.0))), TOL) and all(r.GetValues()[j] == X[j] for j in (0, 2, 3))
        if not okc:
            bad("FixedArray.ChangingIndex(use_value_unit=%r)" % uvu, repr(r), r0)
    # ... the "change only the unit" pair (None, v) at every index: the whole array re-expressed in v, and the pair
    # (amount, v)
    for idx in (0, 2, -1):
        n += 2
        r = fa.ChangingIndex(idx, (None, v))
        if not (obj_ok(r) and all(same(r.GetValues()[j], r0[j], j) for j in range(4))):
            bad("FixedArray.ChangingIndex(%d, (None, v))" % idx, repr(r), r0)
        r = fa.ChangingIndex(idx, (r0[1], v))
        if not (obj_ok(r) and r.GetValues()[idx] == r0[1] and all(same(r.GetValues()[j], r0[j], j) for j in range(4) if j != idx % 4)):
            bad("FixedArray.ChangingIndex(%d, (amount, v))" % idx, repr(r), r0)
    # R8 unit-system manager
    mgr = UnitSystemManager()
    mgr.AddUnitSystem("sys", "caption", {c: v})
    for i in (1, 2):
        n += 2
        g = mgr.ConvertToCurrent(c, u, X[i])
        if g[1] != v or not same(g[0], r0[i], i):
            bad("UnitSystemManager.ConvertToCurrent", g, r0[i], "(lambda m: (m.AddUnitSystem('s', 'cap', {c: v}), m.ConvertToCurrent(c, u, x)[0])[1])(UnitSystemManager())")
        s = mgr.ConvertScalarToCurrent(Scalar(X[i], u, c))
        if not same(s.value, r0[i], i) or not obj_ok(s):
            bad("UnitSystemManager.ConvertScalarToCurrent", repr(s), r0[i], "(lambda m: (m.AddUnitSystem('s', 'cap', {c: v}), m.ConvertScalarToCurrent(Scalar(x, u, c)))[1])(UnitSystemManager())")
    # FractionScalar float route
    n += 1
    fs = FractionScalar(c, X[2], u)
    g = float(fs.GetValue(v))
    if not same(g, r0[2], 2) or fs.CreateCopy(unit=v).GetCategory() != c:
        bad("FractionScalar.GetValue (whole number)", g, r0[2])
    part.count("evaluations", n)


def _task(task):
    qts, all_cats = task
    part = Part()
    with worlds.world("posc") as db:
        cats = {}
        for c, info in db.categories_to_quantity_types.items():
            cats.setdefault(info.quantity_type, []).append(c)
        for qt in qts:
            units = db.GetUnits(qt)
            qcats = cats.get(qt, [])
            for u in units:
                dc = db.GetDefaultCategory(u)
                for v in units:
                    if u != v:
                        part.count("nontrivial")
                    if all_cats:
                        for c in qcats:
                            check_pair(part, db, qt, u, v, c)
                            part.count("pair_category")
                    else:
                        check_pair(part, db, qt, u, v, dc)
                        part.count("pair_category")
            if not all_cats:
                for c in qcats:
                    u = db.GetDefaultUnit(c)
                    for v in units:
                        if c != db.GetDefaultCategory(u):
                            check_pair(part, db, qt, u, v, c)
                            part.count("pair_category")
            part.add("outcomes", qt)
        part.sample({"quantity_type": qts[0], "units": db.GetUnits(qts[0])[:5], "categories": cats.get(qts[0], [])[:4], "values": X}, cap=1)
    return part


def _own_unit(part):
    """Asking any object - simple or derived - for its value in its own unit returns it unchanged."""
    with worlds.world("posc") as db:
        graph, _t = algebra.explore(db, 3, reciprocals=True)
        for st in graph:
            s = algebra.replay(st.history, algebra.BASIS, algebra.PRIMES)
            u = s.GetUnit()
            desc = algebra.describe(st.history)
            sn = "from mc import worlds\nfrom barril.units import *\nwith worlds.world('posc'):\n    s = %s\n    print(repr(s))\n    assert s.GetValue(s.GetUnit()) == s.value\n    s.GetFormatted(s.GetUnit())\n    a = Array(s.GetQuantity(), [1.0, 2.0])\n    assert list(a.GetValues(a.GetUnit())) == [1.0, 2.0]\n" % algebra.expr(st.history)
            part.count("evaluations", 4)
            part.count("own_unit_states")
            for what, thunk, exp in (
                ("Scalar.GetValue(own unit)", lambda: s.GetValue(u), s.value),
                ("Scalar.GetFormatted(own unit)", lambda: s.GetFormatted(u), s.GetFormatted()),
                ("Array.GetValues(own unit) list", lambda: Array(s.GetQuantity(), [1.0, 2.0]).GetValues(u), [1.0, 2.0]),
                ("Array.GetValues(own unit) ndarray", lambda: list(Array(s.GetQuantity(), np.array([1.0, 2.0])).GetValues(u)), [1.0, 2.0]),
                ("Scalar.CreateCopy(unit=own unit)", lambda: s.CreateCopy(unit=u).value if len(st.key) == 1 and st.key[0][2] == 1 else s.value, s.value),
            ):
                try:
                    g = thunk()
                    if g != exp:
                        part.violation("C02:own-unit:%s:%s" % (what, desc), {"got": g, "expected": exp, "object": repr(s)}, sn)
                except Exception as e:
                    part.violation("C02:own-unit:%s:%s" % (what, desc), {"raised": repr(e), "object": repr(s)}, sn)


def _fraclin(part):
    """An application-registered unit whose conversion is FRACTIONAL-linear (base = (A + B x) / (C + D x) with D != 0;
    no row of the shipped table has D != 0, the closure makers support it): every route for every ordered pair of a
    type holding such a unit next to the base unit and a plain linear one."""
    db = worlds.mini("bare")
    db.AddUnitBase("ratio", "fraction", "frac")
    db.AddUnit("ratio", "percent", "pct", *worlds._conv(0.0, 0.01, 1.0, 0.0))
    db.AddUnit("ratio", "fractional-linear unit", "vr", *worlds._conv(0.0, 2.375, 10.25, 1.0))
    db.AddUnit("ratio", "fractional-linear unit with an offset", "vr2", *worlds._conv(0.5, 3.125, 20.5, -1.0))
    db.AddCategory("ratio", "ratio")
    db.AddCategory("second ratio", "ratio")
    with worlds.installed(db):
        units = db.GetUnits("ratio")
        for c in ("ratio", "second ratio"):
            for u in units:
                for v in units:
                    check_pair(part, db, "ratio", u, v, c)
                    part.count("pair_category")
                    part.count("fractional_linear_pairs")
                    if u != v:
                        part.add("nontrivial", ("fraclin", u, v))


def _defaults(part):
    """Objects created from a category default in a non-default unit carry the default's amount."""
    db = worlds.mini("bare")
    db.AddCategory("length", "length")
    db.AddCategory("len-def", "length", default_unit="cm", default_value=250.0)
    db.AddCategory("len-lim", "length", default_unit="km", default_value=1.5, min_value=0.0, max_value=3.0)
    db.AddCategory("temp-def", "temperature", default_unit="degC", default_value=25.0)
    db.AddCategory("temp-F", "temperature", default_unit="degF", default_value=-40.0)
    with worlds.installed(db):
        for c in ("len-def", "len-lim", "temp-def", "temp-F"):
            info = db.GetCategoryInfo(c)
            for v in db.GetUnits(info.quantity_type):
                e = db.Convert(info.quantity_type, info.default_unit, v, info.default_value)
                scale = max(abs(e), abs(db.Convert(info.quantity_type, info.default_unit, v, 0.0)))
                part.count("evaluations", 3)
                part.count("default_cases")
                for what, thunk in (
                    ("Scalar(c, unit=v)", lambda: Scalar(c, unit=v)),
                    ("FractionScalar(c, unit=v)", lambda: FractionScalar(c, unit=v)),
                    ("Scalar(c).CreateCopy(unit=v)", lambda: Scalar(c).CreateCopy(unit=v)),
                ):
                    try:
                        o = thunk()
                        val = float(o.GetValue())
                        if not close(val, e, scale, TOL) or o.GetUnit() != v or o.GetCategory() != c:
                            part.violation("C02:default:%s:%s:%s" % (what, c, v), {"object": repr(o), "expected_value": e})
                    except Exception as ex:
                        part.violation("C02:default:%s:%s:%s" % (what, c, v), {"raised": repr(ex)})
            s = Scalar(c)
            if s.value != info.default_value or s.GetUnit() != info.default_unit:
                part.violation("C02:default:Scalar(c):%s" % c, {"object": repr(s)})


def _posc_defaults(part):
    """every shipped category x every unit of its type: the category default re-expressed in that unit"""
    with worlds.world("posc") as db:
        for c in sorted(db.IterCategories()):
            info = db.GetCategoryInfo(c)
            qt = info.quantity_type
            for v in db.GetUnits(qt):
                e = db.Convert(qt, info.default_unit, v, info.default_value)
                scale = max(abs(e), abs(db.Convert(qt, info.default_unit, v, 0.0)))
                part.count("evaluations", 3)
                part.count("default_cases")
                for what, thunk in (
                    ("Scalar(c, unit=v)", lambda: Scalar(c, unit=v)),
                    ("FractionScalar(c, unit=v)", lambda: FractionScalar(c, unit=v)),
                    ("Scalar(c).CreateCopy(unit=v)", lambda: Scalar(c).CreateCopy(unit=v)),
                ):
                    sn = "from mc import worlds\nfrom barril.units import *\nfrom barril.units import FractionScalar\nwith worlds.world('posc') as db:\n    c, v = %r, %r\n    o = %s\n    e = db.Convert(%r, %r, v, %r)\n    print(o, e)\n    assert abs(float(o.GetValue()) - e) <= 1e-12 * max(abs(e), 1.0)\n" % (c, v, what, qt, info.default_unit, info.default_value)
                    try:
                        o = thunk()
                        val = float(o.GetValue())
                        if not close(val, e, scale, TOL) or o.GetUnit() != v or o.GetCategory() != c:
                            part.violation("C02:posc-default:%s:%s:%s" % (what, c, v), {"object": repr(o), "expected_value": e}, sn)
                    except Exception as ex:
                        part.violation("C02:posc-default:%s:%s:%s" % (what, c, v), {"raised": repr(ex)}, sn)


def _warm_task(qts):
    """Depth-2 histories: a prelude of queries another part of a program may have issued (unknown-quantity
    objects asked for every unit label, rejected cross-type requests, lookups by category) and THEN the
    scalar routes of every ordered pair, on the same (now warm) database."""
    part = Part()
    with worlds.world("posc") as db:
        unknown_q = ObtainQuantity("<unknown>", "Unknown")
        reps = {}
        for u, i in db.unit_to_unit_info.items():
            reps.setdefault(i.quantity_type, u)
        for qt in qts:
            units = db.GetUnits(qt)
            other = next(r for t, r in reps.items() if t != qt and t != "Unknown")
            for v in units:
                preludes = (
                    lambda: Scalar(unknown_q, 12.5).GetValue(v),
                    lambda: Array(unknown_q, [12.5, 1.0]).GetValues(v),
                    lambda: Array(unknown_q, np.array([12.5, 1.0])).GetValues(v),
                    lambda: unknown_q.Convert(3.0, v),
                    lambda: db.Convert("Unknown", "<unknown>", v, 1.0),
                    lambda: db.Convert("Unknown", v, "<unknown>", 1.0),
                    lambda: db.GetInfo("Unknown", v, fix_unknown=True),
                    lambda: Scalar(1.0, other).GetValue(v),
                    lambda: db.Convert(db.GetQuantityType(other), other, v, 1.0),
                    lambda: Scalar(1.0, v, db.GetDefaultCategory(other)),
                    lambda: ObtainQuantity(v, db.GetDefaultCategory(other)),
                )
                for f in preludes:
                    part.count("prelude_operations")
                    try:
                        f()
                    except Exception:
                        part.count("prelude_operations_rejected")
            for u in units:
                dc = db.GetDefaultCategory(u)
                for v in units:
                    check_pair(part, db, qt, u, v, dc, full=False)
                    part.count("warm_pairs")
    return part


def _dispatch(task):
    if task[0] == "own":
        p = Part()
        _own_unit(p)
        return p
    if task[0] == "defaults":
        p = Part()
        _defaults(p)
        return p
    if task[0] == "fraclin":
        p = Part()
        _fraclin(p)
        return p
    if task[0] == "posc_defaults":
        p = Part()
        _posc_defaults(p)
        return p
    if task[0] == "warm":
        return _warm_task(task[1])
    return _task(task[1])


def run(ctx):
    with worlds.world("posc") as db:
        qts = sorted(db.GetQuantityTypes(), key=lambda q: -len(db.GetUnits(q)))
        n_pairs = sum(len(db.GetUnits(q)) ** 2 for q in qts)
    shards = [qts[i::48] for i in range(48)]
    tasks = [("pairs", (s, ctx.thorough and not worlds.WARM)) for s in shards if s] + [("own", None), ("defaults", None), ("fraclin", None), ("posc_defaults", None)] + [("warm", s) for s in shards if s]
    run_sharded(ctx, _dispatch, tasks)
    c = ctx.part.counters
    ctx.level = "exploration"
    ctx.rule = (
        "every ordered unit pair of every quantity type (%d incl. u == v) x %s x values %r through 16 routes compared with db.Convert; non-trivial = (pair, category) combinations with u != v; "
        "the four Scalar/Quantity routes again for every pair on a database warmed by 11 prelude queries per unit (unknown-quantity objects asked for that unit label, rejected cross-type requests); every shipped category x every unit: the default re-expressed; outcomes = quantity types visited" % (n_pairs, "all categories of the type" if ctx.thorough else "the unit's default category (+ all categories on pairs from the category's default unit)", X)
    )
    ctx.states = c.get("pair_category", 0)
    ctx.transitions = c.get("evaluations", 0)
    ctx.coverage_extra = {
        "pair_category_combinations": c.get("pair_category", 0),
        "own_unit_derived_states": c.get("own_unit_states", 0),
        "category_default_cases": c.get("default_cases", 0),
        "warm_pairs": c.get("warm_pairs", 0),
        "prelude_operations": c.get("prelude_operations", 0),
        "prelude_operations_rejected": c.get("prelude_operations_rejected", 0),
        "alphabet": {"values": X, "containers": ["float", "int", "list", "tuple", "ndarray (len 0,1,4)", "list of tuples", "tuple of tuples"], "routes": ["Scalar.GetValue", "CreateCopy(unit)", "ChangeScalars", "Quantity.ConvertScalarValue", "Quantity.Convert", "db.Convert float/int/list/tuple/ndarray/exponent lists/by category", "Array.GetValues", "Array.CreateCopy(unit)", "FixedArray.IndexAsScalar", "FixedArray.ChangingIndex", "UnitSystemManager.ConvertToCurrent", "UnitSystemManager.ConvertScalarToCurrent", "FractionScalar.GetValue"]},
    }
    ctx.assumptions = [
        "R0 = db.Convert on floats is the reference (itself judged by C01); tolerance 1e-12 on the scale max(|R0|, |R0(0)|)",
        "values outside the 4-value alphabet are not explored (every route applies the same two closures element-wise)",
    ]
