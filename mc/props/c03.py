"""
C03  Addition and subtraction are physically sound, also for derived units.

(1) Explicit-state search over the algebra of derived quantities (mc/algebra.py): for every
    ordered pair (a, b) of states with equal dimension vector: a+b, a-b, b+a, (a+b)-b on Scalar and
    element-wise on Array (list / tuple / ndarray); judged by the dims model.
(2) Every ordered unit pair of every quantity type (incl. affine units), exponent 1: first clause
    only (a.value +- b re-expressed in a's unit; left operand's unit and category).
"""
import numpy as np

from barril.units import Array, Scalar

from .. import algebra, worlds
from ..par import chunks, run_sharded
from ..ref.dims import Model, close
from ..runner import Part

TOL = 1e-12
_G = {}


def _snip(a, b, op, values):
    return (
        "from mc import worlds\nfrom mc.ref.dims import Model\nfrom barril.units import Scalar\n"
        "with worlds.world('posc') as db:\n"
        "    a = %s\n    b = %s\n    r = a %s b\n    m = Model(db)\n"
        "    ea, eb = m.base_magnitude(a.GetQuantity(), a.value), m.base_magnitude(b.GetQuantity(), b.value)\n"
        "    got = m.base_magnitude(r.GetQuantity(), r.value)\n"
        "    print(a, '%s', b, '->', r)\n"
        "    assert r.GetQuantity().GetCategoryToUnitAndExps() == a.GetQuantity().GetCategoryToUnitAndExps(), r.GetQuantity()\n"
        "    assert abs(float(got) - float(ea %s eb)) <= 1e-12 * max(abs(float(ea)), abs(float(eb))), (float(got), float(ea %s eb))\n"
        % (algebra.expr(a.history, values=values), algebra.expr(b.history, values=values), op, op, op, op)
    )


def _map(q):
    return {c: tuple(ue) for c, ue in q.GetCategoryToUnitAndExps().items()}


def _judge(part, model, sig, r, qa, exp_mag, scale, detail, snippet=None):
    part.count("evaluations")
    if not isinstance(r, Scalar):
        part.violation(sig + ":type", dict(detail, got=type(r).__name__), snippet)
        return
    q = r.GetQuantity()
    if _map(qa) and _map(q) != _map(qa):
        part.violation(sig + ":quantity", dict(detail, got=_map(q), expected=_map(qa)), snippet)
        return
    got = model.base_magnitude(q, r.value)
    if not close(got, exp_mag, scale, TOL):
        part.violation(sig + ":magnitude", dict(detail, got_base=float(got), expected_base=float(exp_mag), result=repr(r)), snippet)


def _pairs_task(task):
    idx, vname = task
    states = _G["states"]
    values = algebra.PRIMES if vname == "v1" else algebra.PRIMES2
    part = Part()
    with worlds.world("posc") as db:
        model = Model(db)
        by_dim = {}
        for j, s in enumerate(states):
            by_dim.setdefault(s.dimkey, []).append(j)
        for ia in idx:
            a = states[ia]
            sa = algebra.replay(a.history, algebra.BASIS, values)
            qa = sa.GetQuantity()
            ma = model.base_magnitude(qa, sa.value)
            for ib in by_dim[a.dimkey]:
                b = states[ib]
                sb = algebra.replay(b.history, algebra.BASIS, values)
                qb = sb.GetQuantity()
                mb = model.base_magnitude(qb, sb.value)
                scale = max(abs(ma), abs(mb))
                names = "%s || %s" % (algebra.describe(a.history, values=values), algebra.describe(b.history, values=values))
                detail = {"a": repr(sa), "b": repr(sb)}
                part.count("pairs")
                if a.key != b.key:
                    part.count("nontrivial")
                part.add("outcomes", (a.dimkey, a.key == b.key))
                try:
                    s1 = sa + sb
                    _judge(part, model, "C03:add:" + names, s1, qa, ma + mb, scale, detail, _snip(a, b, "+", values))
                    d1 = sa - sb
                    _judge(part, model, "C03:sub:" + names, d1, qa, ma - mb, scale, detail, _snip(a, b, "-", values))
                    s2 = sb + sa
                    _judge(part, model, "C03:add-commuted:" + names, s2, qb, ma + mb, scale, detail)
                    part.count("evaluations")
                    if not close(model.base_magnitude(s1.GetQuantity(), s1.value), model.base_magnitude(s2.GetQuantity(), s2.value), scale, TOL):
                        part.violation("C03:commutes:" + names, dict(detail, ab=repr(s1), ba=repr(s2)))
                    back = s1 - sb
                    _judge(part, model, "C03:add-then-sub:" + names, back, qa, ma, scale, detail)
                    # Arrays, element by element
                    for kind, mk, mk2 in (("list", list, list), ("tuple", tuple, tuple), ("ndarray", np.array, np.array), ("ndarray+list", np.array, list), ("ndarray+tuple", np.array, tuple), ("list+ndarray", list, np.array)):
                        va = mk([sa.value, 2.0 * sa.value])
                        vb = mk2([sb.value, -3.0 * sb.value])
                        for opn in "+-":
                            ar = (Array(qa, va) + Array(qb, vb)) if opn == "+" else (Array(qa, va) - Array(qb, vb))
                            part.count("evaluations")
                            ref = s1 if opn == "+" else d1
                            if ar.GetQuantity() != ref.GetQuantity():
                                part.violation("C03:array%s%s:%s:quantity" % (opn, kind, names), dict(detail, array_quantity=repr(ar.GetQuantity()), scalar_quantity=repr(ref.GetQuantity())))
                                continue
                            conv_b = (ref.value - sa.value) if opn == "+" else (sa.value - ref.value)  # b re-expressed in a's units, per the Scalar path
                            e0 = ref.value
                            e1 = 2.0 * sa.value + (-3.0 * conv_b if opn == "+" else 3.0 * conv_b)
                            vals = [float(v) for v in ar.values]
                            sc = max(abs(sa.value), abs(conv_b)) * 3
                            if len(vals) != 2 or not close(vals[0], e0, sc, 1e-11) or not close(vals[1], e1, sc, 1e-11):
                                part.violation("C03:array%s%s:%s:values" % (opn, kind, names), dict(detail, got=vals, expected=[e0, e1]))
                except Exception as e:
                    part.violation("C03:raised:" + names, dict(detail, error=repr(e)), _snip(a, b, "+", values))
            if ia % 29 == 0:
                part.sample({"a": algebra.describe(a.history, values=values), "partners_same_dimension": len(by_dim[a.dimkey])}, cap=2)
    return part


def _mixed_task(_):
    """An operand whose quantity holds TWO units of one quantity type (obtainable only through
    Quantity.CreateDerived / ObtainQuantity with a hand-made map, so outside the letter of the property's
    quantifier): a+b, a-b, b+a, b-a, (a+b)-b still denote the right physical amounts; the units of the result
    are not judged (the implementation unifies them)."""
    from collections import OrderedDict

    from barril.units import Quantity

    from .c04 import MIXED

    part = Part()
    S = Scalar
    partners = {
        0: [lambda: S(2.0, "m", "length") * S(3.0, "m", "depth"), lambda: S(5.0, "cm", "length") * S(7.0, "km", "depth"), lambda: S(2.0, "cm", "depth") * S(3.0, "cm", "depth")],
        1: [lambda: (S(2.0, "m", "length") * S(3.0, "m", "depth")) / S(5.0, "s", "time"), lambda: (S(2.0, "cm", "length") * S(3.0, "km", "depth")) / S(5.0, "min", "time")],
        2: [lambda: S(2.0, "kg", "mass") * S(3.0, "m", "length"), lambda: S(2.0, "g", "mass") * S(3.0, "cm", "depth")],
    }
    with worlds.world("posc") as db:
        model = Model(db)
        for k, (name, entries) in enumerate(MIXED):
            mk = lambda: S(Quantity.CreateDerived(OrderedDict((c, list(ue)) for c, ue in entries)), 60.0)  # noqa: E731
            ma = model.base_magnitude(mk().GetQuantity(), 60.0)
            others = partners[k] + [lambda: S(Quantity.CreateDerived(OrderedDict((c, list(ue)) for c, ue in entries)), -7.0)]
            for j, mkb in enumerate(others):
                b0 = mkb()
                mb = model.base_magnitude(b0.GetQuantity(), b0.value)
                scale = max(abs(ma), abs(mb))
                for label, f, want in (
                    ("a + b", lambda: mk() + mkb(), ma + mb),
                    ("a - b", lambda: mk() - mkb(), ma - mb),
                    ("b + a", lambda: mkb() + mk(), ma + mb),
                    ("b - a", lambda: mkb() - mk(), mb - ma),
                    ("(a + b) - b", lambda: (mk() + mkb()) - mkb(), ma),
                    ("(b + a) - a", lambda: (mkb() + mk()) - mk(), mb),
                ):
                    part.count("evaluations")
                    part.count("mixed_unit_sums")
                    sig = "C03:mixed-units:a = Scalar(CreateDerived(%s), 60.0), b = %r: %s" % (name, b0, label)
                    try:
                        r = f()
                    except Exception as e:
                        part.violation(sig + ":raised", {"error": repr(e)})
                        continue
                    got = model.base_magnitude(r.GetQuantity(), r.value)
                    if model.dimension(r.GetQuantity()) != model.dimension(b0.GetQuantity()) or not close(got, want, scale, TOL):
                        part.violation(sig + ":another amount", {"result": repr(r), "got_base": float(got), "expected_base": float(want)})
    return part


XY = [(1.5, -2.25), (0.0, 1.0), (-1e3, 1e-3)]


def _simple_task(qts):
    part = Part()
    with worlds.world("posc") as db:
        cats = {}
        for c, info in db.categories_to_quantity_types.items():
            cats.setdefault(info.quantity_type, []).append(c)
        for qt in qts:
            units = db.GetUnits(qt)
            cl = cats.get(qt, [])[:2]
            if not cl:
                continue
            for u in units:
                for v in units:
                    for x, y in XY:
                        for ca in cl:
                            cb = cl[-1] if ca == cl[0] else cl[0]
                            a = Scalar(x, u, ca)
                            b = Scalar(y, v, cb)
                            yb = db.Convert(qt, v, u, y)
                            part.count("evaluations", 2)
                            part.count("simple_pairs")
                            if u != v:
                                part.count("nontrivial")
                            for opn, r, e in (("+", a + b, x + yb), ("-", a - b, x - yb)):
                                sc = max(abs(x), abs(yb))
                                if r.GetUnit() != u or r.GetCategory() != ca or not close(r.value, e, sc, TOL):
                                    part.violation(
                                        "C03:simple%s:%s:%s:%s:%s/%s" % (opn, qt, u, v, ca, cb),
                                        {"a": repr(a), "b": repr(b), "result": repr(r), "expected_value": e},
                                        "from mc import worlds\nfrom barril.units import Scalar\nwith worlds.world('posc') as db:\n"
                                        "    r = Scalar(%r, %r, %r) %s Scalar(%r, %r, %r)\n    e = %r %s db.Convert(%r, %r, %r, %r)\n"
                                        "    assert r.GetUnit() == %r and r.GetCategory() == %r and abs(r.value - e) <= 1e-12 * %r, (r, e)\n"
                                        % (x, u, ca, opn, y, v, cb, x, opn, qt, v, u, y, u, ca, max(sc, 1e-300)),
                                    )
    return part


def _dispatch(task):
    if task[0] == "simple":
        return _simple_task(task[1])
    if task[0] == "mixed":
        return _mixed_task(task[1])
    return _pairs_task(task)


def run(ctx):
    depth = 3 if ctx.thorough else 2
    with worlds.world("posc") as db:
        graph, transitions = algebra.explore(db, depth, reciprocals=True)
        qts = sorted(db.GetQuantityTypes(), key=lambda q: -len(db.GetUnits(q)))
    _G["states"] = graph
    tasks = [(c, "v1") for c in chunks(range(len(graph)), 48)]
    if ctx.thorough:
        tasks += [(c, "v2") for c in chunks(range(len(graph)), 48)]
    # interleave quantity types so that shards are balanced
    tasks += [("simple", qts[i::24]) for i in range(24)] + [("mixed", None)]
    run_sharded(ctx, _dispatch, tasks)
    c = ctx.part.counters
    ctx.level = "model_checking"
    ctx.states = len(graph)
    ctx.transitions = transitions + c.get("pairs", 0) + c.get("simple_pairs", 0)
    ctx.traces = ctx.transitions
    ctx.rule = (
        "BFS over products/quotients from %d atoms and their reciprocals 1.0/atom to depth %d; all ordered pairs of states with equal dimension vector (%d dimension classes) "
        "+ all ordered unit pairs of all quantity types (exponent 1); non-trivial = pairs whose composing maps (or units) differ"
        % (len(algebra.BASIS), depth, len({s.dimkey for s in graph}))
    )
    ctx.coverage_extra = {
        "max_depth": depth,
        "same_dimension_pairs": c.get("pairs", 0),
        "simple_unit_pairs_x_values_x_categories": c.get("simple_pairs", 0),
        "sums_with_a_mixed_unit_operand": c.get("mixed_unit_sums", 0),
        "alphabet": {"atoms": algebra.BASIS, "values": algebra.PRIMES, "ops": ["a+b", "a-b", "b+a", "(a+b)-b"], "containers": ["Scalar", "Array[list]", "Array[tuple]", "Array[ndarray]"], "simple_values": XY},
    }
    ctx.assumptions = [
        "derived part: scale-only units; (a+b)-b and a+b vs b+a judged on the scale max(|a|,|b|) in base units (plain float cancellation is not a defect)",
        "affine units are judged on the first clause only (a.value +- b re-expressed in a's unit): a+b ~ b+a is false for offsets by arithmetic",
        "magnitudes by the exact-rational dims model; db.Convert is the reference for re-expressing b in the simple part (itself judged by C01/C02)",
    ]
