"""
C17  The unit-system manager is a registry with exactly one current system.

Explicit-state BFS on a fresh UnitSystemManager (not the singleton) in lock-step with the usm
reference model, listeners on on_current / on_unit_changed appending to a log.  To a fixpoint
(quick: ids {a, b, 'system 1'}; thorough: adds id c and one more category/unit choice).
"""
from barril.units.unit_system import UnitSystem
from barril.units.unit_system_manager import UnitSystemManager

# the histories of this check run on hand-registered databases rebuilt per history: the warm regime of the
# thorough tier (worlds.warm_up on the shipped table) would only repeat the same exploration
WARM_REGIME = False

from .. import explorer, worlds
from ..ref.usm import UsmModel
from ..runner import Part

MAPPINGS = {
    "none": lambda s: None,
    "empty": lambda s: {},
    "len": lambda s: {"length": "m"},
    "both": lambda s: {"length": "km", "depth": "m"},
    "shared": lambda s: s.shared,  # the same dict object on every use inside one history
}
TEMPLATES = {"t-empty": {}, "t-len": {"length": "m"}, "t-depth": {"depth": "m"}}


def make_ops(thorough, reentrant=False):
    ids = ["a", ""] + (["c"] if thorough else [])  # (the empty string is a legal id)
    ops = []
    for i in ids:
        for k in MAPPINGS:
            if reentrant and k in ("empty", "len"):
                continue
            ops.append(("add", i, k))
    ops.append(("add", "system 1", "none"))
    for i in ids + ["system 1"]:
        ops.append(("remove", i))
    for i in ids:
        ops.append(("cur", i))
    ops.append(("cur", None))
    for t in TEMPLATES:
        ops.append(("tmpl", t))
    for i in ids:
        ops.append(("sdu", i, "length", "cm"))
        ops.append(("sdu", i, "depth", "km"))
        ops.append(("rmc", i, "length"))
        if thorough:
            ops.append(("sdu", i, "length", "m"))
            ops.append(("rmc", i, "depth"))
    if reentrant:
        # the pass with a re-entrant client: the structural operations above, every getter at once, and a client
        # whose on_current listener calls back into the library, installed once per history:
        #   enforce: sets its preferred length unit on whatever system becomes current
        #   pin:     whenever system '' becomes current, selects system 'a' instead (if registered)
        ops = [o for o in ops if o != ("tmpl", "t-empty")]
        ops.append(("queries",))
        ops.append(("arm", "enforce"))
        ops.append(("arm", "pin"))
        return ops
    ops.append(("newid",))
    ops.append(("conv", "length", "m", 1500.0))
    ops.append(("conv", "depth", "km", 2.0))
    ops.append(("conv", "time", "s", 2.0))
    ops.append(("convB1", "length", "m", 1500.0))  # the same question while ANOTHER unit database is the current singleton
    ops.append(("queries",))  # every read-only getter of the manager at once, compared with the model
    ops.append(("othermgr",))  # a second manager alive at the same time does some work
    return ops


FALLBACK = {"time": "min"}


class FallbackUnitSystem(UnitSystem):
    """An application-defined unit system class (installed with SetDefaultUnitSystemClass): categories the
    user did not configure are answered from a fixed table.  What counts everywhere is what the CURRENT
    system's GetDefaultUnit reports, not the raw mapping."""

    def GetDefaultUnit(self, category):
        unit = UnitSystem.GetDefaultUnit(self, category)
        return FALLBACK.get(category) if unit is None else unit


def other_manager_work():
    """A second manager alive at the same time, with its own current system mapping the same categories to
    other units, converts a few amounts (nothing may leak into the manager under test)."""
    m2 = UnitSystemManager()
    m2.AddUnitSystem("x", "x", {"length": "km", "depth": "cm", "time": "h"})
    m2.AddUnitSystem("y", "y", {"length": "mm"})
    out = (m2.ConvertToCurrent("length", "m", 1000.0), m2.ConvertToCurrent("depth", "m", 1.0), m2.ConvertToCurrent("time", "s", 7200.0), m2.GetCategoryDefaultUnit("length"))
    m2.SetCurrent(m2.GetUnitSystems()["y"])
    return out + (m2.ConvertToCurrent("length", "m", 1.0),)


class Sys:
    def __init__(self):
        self.mgr = UnitSystemManager()
        self.mgr.SetDefaultUnitSystemClass(FallbackUnitSystem)
        self.model = UsmModel(fallback=FALLBACK)
        self.log = []
        self.shared = {"length": "cm", "depth": "m"}
        self.broken = False
        self.armed = None  # behaviour of the on_current listener beyond logging (see make_ops)
        self.model.client = self._model_client
        self.mgr.on_current.Register(self._on_current)
        self.mgr.on_unit_changed.Register(self._on_unit)

    def _on_current(self, system):
        self.log.append(("current", system.GetId()))
        if self.armed == "enforce" and system.GetId() is not None:
            system.SetDefaultUnit("length", "mm")
        elif self.armed == "pin" and system.GetId() == "":
            target = self.mgr.GetUnitSystems().get("a")
            if target is not None:
                self.mgr.SetCurrent(target)

    def _model_client(self, sid):
        """The same client, acting on the reference model."""
        if self.armed == "enforce" and sid is not None:
            self.model.set_default_unit(sid, "length", "mm")
        elif self.armed == "pin" and sid == "" and "a" in self.model.systems:
            self.model.set_current("a")

    def _on_unit(self, category, unit):
        self.log.append(("unit", category, unit))


def make():
    return Sys()


def fingerprint(s):
    """Observable state of the implementation through public getters (+ alias / listener structure
    for hashing only)."""
    mgr = s.mgr
    systems = mgr.GetUnitSystems()
    dict_ids = {}
    rows = []
    for sid, system in systems.items():
        m = system.GetUnitsMapping()
        alias = dict_ids.setdefault(id(m), len(dict_ids))
        try:
            listening = bool(system.on_default_unit.Contains(mgr._CategoryUnitChange))
        except AttributeError:
            listening = None
        rows.append((sid, tuple(sorted(m.items())), alias, id(m) == id(s.shared), listening, system.GetId()))
    t = mgr.GetUnitSystemTemplate()
    tmpl = None if t is None else tuple(sorted(t.GetUnitsMapping().items()))
    cur = mgr.GetCurrent()
    return (tuple(rows), tmpl, cur.GetId(), tuple(sorted(s.shared.items())), s.armed)


def canon(s):
    if s.broken:
        return "BROKEN"
    return fingerprint(s)


def _matches(exc, expected):
    if expected is None:
        return exc is None
    if exc is None:
        return False
    return any(k.__name__ == expected for k in type(exc).__mro__)


def apply(s, op, part, hist):
    if s.broken:
        return False
    mgr, model = s.mgr, s.model
    kind = op[0]
    registered = mgr.GetUnitSystems()
    if kind in ("cur",) and op[1] is not None and op[1] not in registered:
        return False
    if kind in ("sdu", "rmc") and op[1] not in registered:
        return False
    if kind == "arm" and s.armed is not None:
        return False
    pre = fingerprint(s) if part is not None else None
    n_log, n_mlog = len(s.log), len(model.log)
    exc = None
    result = expected_result = None
    try:
        if kind == "add":
            mapping = MAPPINGS[op[2]](s)
            model_mapping = None if mapping is None else dict(mapping)  # content at call time
            # (system '' and every system built from the caller's shared dict are created read-only: the flag is
            # descriptive - the mapping is still the system's own copy and the notifications are the same)
            result = mgr.AddUnitSystem(op[1], "caption " + op[1], mapping, op[1] == "" or op[2] == "shared")
        elif kind == "remove":
            mgr.RemoveUnitSystem(op[1])
        elif kind == "cur":
            mgr.SetCurrent(None if op[1] is None else registered[op[1]])
        elif kind == "tmpl":
            mgr.SetTemplateUnitSystemByUnitsMapping(dict(TEMPLATES[op[1]]))
        elif kind == "sdu":
            registered[op[1]].SetDefaultUnit(op[2], op[3])
        elif kind == "rmc":
            registered[op[1]].RemoveCategory(op[2])
        elif kind == "arm":
            s.armed = op[1]
        elif kind == "newid":
            result = mgr.GetNewId()
        elif kind == "conv":
            result = mgr.ConvertToCurrent(op[1], op[2], op[3])
        elif kind == "convB1":
            from barril.units import UnitDatabase as _UD

            _UD.PushSingleton(worlds.contradicting("B1"))
            try:
                result = mgr.ConvertToCurrent(op[1], op[2], op[3])
            finally:
                _UD.PopSingleton()
        elif kind == "othermgr":
            result = other_manager_work()
        elif kind == "queries":
            from barril.units import ObtainQuantity, Scalar

            def q(f):
                try:
                    return ("ok", f())
                except Exception as e:
                    return ("raise", type(e).__name__)

            result = (
                tuple(q(lambda: mgr.GetUnitSystemById(i).GetId()) for i in ("a", "", "c", "system 1", "nope")),
                tuple(q(lambda: mgr.GetCategoryDefaultUnit(c)) for c in ("length", "depth", "time")),
                tuple(q(lambda: mgr.GetQuantityDefaultUnit(ObtainQuantity(u, c))) for u, c in (("m", "length"), ("km", "depth"), ("s", "time"))),
                tuple(q(lambda: (lambda r: (r.GetValue(), r.GetUnit(), r.GetCategory()))(mgr.ConvertScalarToCurrent(Scalar(1500.0, u, c)))) for u, c in (("m", "length"), ("km", "depth"), ("s", "time"))),
                q(lambda: mgr.GetCurrent().GetId()),
                q(lambda: list(mgr.GetUnitSystems())),
            )
    except Exception as e:  # judged below
        exc = e
    # the model
    if kind == "add":
        expected = model.add(op[1], model_mapping)
    elif kind == "remove":
        expected = model.remove(op[1])
    elif kind == "cur":
        expected = model.set_current(op[1])
    elif kind == "tmpl":
        expected = model.set_template(TEMPLATES[op[1]])
    elif kind == "sdu":
        expected = model.set_default_unit(op[1], op[2], op[3])
    elif kind == "rmc":
        expected = model.remove_category(op[1], op[2])
    else:
        expected = None
    if part is None:
        return True
    part.count("evaluations")
    hist_ops = [OPS_BY_TIER[s_tier()][i] for i in hist] + [op]
    sig = "C17:%s" % (" ; ".join(fmt(o) for o in hist_ops))

    def bad(what, detail):
        s.broken = True
        part.violation(sig + " :: " + what, detail, "import sys\nfrom mc.props import c17\nsys.exit(c17.replay(%r))\n" % (hist_ops,))

    if not _matches(exc, expected):
        bad("outcome", {"raised": repr(exc), "model_expected": expected or "accepted"})
        return True
    post = fingerprint(s)
    if expected is not None:
        part.count("rejected")
        if post != pre or s.log[n_log:]:
            bad("rejected-call-changed-state", {"before": pre, "after": post, "callbacks": s.log[n_log:]})
        return True
    # accepted: registry equal to the model
    impl_systems = [(r[0], dict(r[1])) for r in post[0]]
    model_systems = [(sid, dict(m)) for sid, m in model.systems.items()]
    if impl_systems != model_systems:
        bad("systems", {"impl": impl_systems, "model": model_systems})
        return True
    if any(r[0] != r[5] for r in post[0]) or len({r[0] for r in post[0]}) != len(post[0]):
        bad("ids", {"impl": post[0]})
        return True
    if post[2] != model.current:
        bad("current", {"impl": post[2], "model": model.current})
        return True
    cur = mgr.GetCurrent()
    if cur.GetId() is not None and mgr.GetUnitSystems().get(cur.GetId()) is not cur:
        bad("current-not-registered", {"current": cur.GetId(), "registered": list(mgr.GetUnitSystems())})
        return True
    mt = None if model.template is None else tuple(sorted(model.template.items()))
    if post[1] != mt:
        bad("template", {"impl": post[1], "model": mt})
        return True
    if s.log[n_log:] != model.log[n_mlog:]:
        bad("callbacks", {"impl": s.log[n_log:], "model": model.log[n_mlog:]})
        return True
    if kind == "add":
        if result is not mgr.GetUnitSystems().get(op[1]):
            bad("add-returned-other-object", {})
            return True
    if kind == "newid":
        if result != model.new_id() or result in mgr.GetUnitSystems():
            bad("newid", {"impl": result, "model": model.new_id()})
            return True
    if kind in ("conv", "convB1"):
        from barril.units import UnitDatabase

        to = model.current_default_unit(op[1])
        if to is None:
            exp = (op[3], op[2])
        else:
            # (the manager converts with the unit database that is the singleton at the time of the call)
            exp = ((worlds.contradicting("B1") if kind == "convB1" else UnitDatabase.GetSingleton()).Convert(op[1], op[2], to, op[3]), to)
        if tuple(result) != exp:
            bad("convert-to-current", {"impl": result, "expected": exp})
            return True
        if post != pre or s.log[n_log:]:
            bad("query-changed-state", {"before": pre, "after": post})
            return True
    if kind == "othermgr":
        if result != ((1.0, "km"), (100.0, "cm"), (2.0, "h"), "km", (1000.0, "mm")):
            bad("second manager answers wrongly", {"impl": result})
            return True
        if post != pre or s.log[n_log:]:
            bad("work in a second manager changed this one", {"before": pre, "after": post, "callbacks": s.log[n_log:]})
            return True
    if kind == "queries":
        from barril.units import UnitDatabase

        db = UnitDatabase.GetSingleton()

        def conv_exp(u, c):
            to = model.current_default_unit(c)
            return ("ok", (1500.0, u, c)) if to is None else ("ok", (db.Convert(c, u, to, 1500.0), to, c))

        exp = (
            tuple(("ok", i) if i in model.systems else ("raise", "ValueError") for i in ("a", "", "c", "system 1", "nope")),
            tuple(("ok", model.current_default_unit(c)) for c in ("length", "depth", "time")),
            tuple(("ok", model.current_default_unit(c) or u) for u, c in (("m", "length"), ("km", "depth"), ("s", "time"))),
            tuple(conv_exp(u, c) for u, c in (("m", "length"), ("km", "depth"), ("s", "time"))),
            ("ok", model.current),
            ("ok", list(model.systems)),
        )
        if result != exp:
            bad("queries", {"impl": result, "model": exp})
            return True
        if post != pre or s.log[n_log:]:
            bad("query-changed-state", {"before": pre, "after": post, "callbacks": s.log[n_log:]})
            return True
    if kind == "newid" and (post != pre or s.log[n_log:]):
        bad("query-changed-state", {"before": pre, "after": post})
    if len(post[0]) >= 2 or post[2] is not None:
        part.add("nontrivial", explorer.digest(post))
    part.add("outcomes", (kind, expected, tuple(s.log[n_log:])))
    return True


def fmt(op):
    return "%s(%s)" % (op[0], ", ".join(repr(a) for a in op[1:]))


OPS_BY_TIER = {False: make_ops(False), True: make_ops(True), "re": make_ops(False, True)}
_TIER = {"thorough": False}


def s_tier():
    return _TIER["thorough"]


def replay(hist_ops):
    """Re-executes one history in lock-step with the model (no search); exit code 1 on mismatch."""
    part = Part()
    with worlds.world("posc"):
        s = make()
        key = "re" if any(tuple(o)[0] == "arm" for o in hist_ops) else True
        _TIER["thorough"] = key
        ops = OPS_BY_TIER[key]
        idx = []
        for op in hist_ops:
            op = tuple(op)
            r = apply(s, op, part, tuple(idx))
            idx.append(ops.index(op))
            print(fmt(op), "->", "skipped" if r is False else "ok", "| systems:", [(k, v.GetUnitsMapping()) for k, v in s.mgr.GetUnitSystems().items()], "current:", s.mgr.GetCurrent().GetId(), "log:", s.log)
    for v in part.violations:
        print("MISMATCH", v["signature"], v["detail"])
    return 1 if part.violations else 0


def run(ctx):
    passes = [(False, 14), ("re", 14)]  # both to a fixpoint
    if ctx.thorough:
        passes.append((True, 6))  # three ids + more unit choices: too large for a fixpoint, depth bounded
    res = None
    extra = []
    with worlds.world("posc"):
        for wide, depth in passes:
            _TIER["thorough"] = wide
            ops = OPS_BY_TIER[wide]
            before = ctx.part.counters.get("transitions", 0)
            r = explorer.bfs(ctx, make, apply, ops, canon, max_depth=depth, lookahead=3 if wide is True else 4)
            r["transitions"] = ctx.part.counters.get("transitions", 0) - before
            r["operations"] = len(ops)
            extra.append({k: r[k] for k in ("states", "transitions", "fixpoint", "depth", "open_frontier", "operations")})
            ctx.part.sample({"deepest_history": [fmt(ops[i]) for i in r["deepest"]]})
            if res is None:
                res = r
    ops = OPS_BY_TIER[False]
    res = dict(res, states=sum(e["states"] for e in extra), transitions=sum(e["transitions"] for e in extra))
    ctx.level = "model_checking"
    ctx.states = res["states"]
    ctx.transitions = res["transitions"]
    ctx.traces = res["transitions"]
    ctx.exhaustive = True
    ctx.part.sample({"operations": [fmt(o) for o in ops]})
    ctx.rule = (
        "BFS over %d operations on a fresh UnitSystemManager in lock-step with the reference model; state = ordered (id, mapping, alias class, listener) + template + current; "
        "non-trivial = distinct states with >= 2 systems or a non-null current; outcomes = distinct (operation kind, verdict, callback delta)" % len(ops)
    )
    ctx.coverage_extra = {
        "fixpoint": extra[0]["fixpoint"],
        "max_depth": extra[0]["depth"],
        "open_frontier": extra[0]["open_frontier"],
        "passes": extra,
        "rejected_calls": ctx.part.counters.get("rejected", 0),
        "alphabet": {"operations": len(ops), "ids": sorted({o[1] for o in ops if o[0] == "add"}), "mappings": sorted(MAPPINGS), "templates": sorted(TEMPLATES)},
    }
    for e in extra:
        if not e["fixpoint"]:
            ctx.part.notes.append("pass with %d operations stopped at depth %d with %d open states (not a fixpoint)" % (e["operations"], e["depth"], e["open_frontier"]))
    ctx.assumptions = [
        "SetCurrent is only given a registered system or None; operations on systems are issued on registered systems",
        "one on_current per selection event (explicit SetCurrent, first add while none is current, removal of the current system)",
        "state hashing reads the private listener registration (hash only; the oracle compares public getters and the callback log)",
    ]
