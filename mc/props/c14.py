"""
C14  The unit registry stays well-formed under any registration history.

(a) Explicit-state BFS on an empty UnitDatabase over an alphabet of registration calls (valid,
    duplicate, invalid, overriding, inheriting, legacy-spelled), in lock-step with the registry
    reference model; invariants I1-I4 in every state, atomicity of every rejected call.
(b) The same invariants on every quantity type, unit and category of the shipped worlds.
"""
import math

# the histories of this check run on hand-registered databases rebuilt per history: the warm regime of the
# thorough tier (worlds.warm_up on the shipped table) would only repeat the same exploration
WARM_REGIME = False

from barril.units import Scalar, UnitDatabase
from barril.units.posc import MakeBaseToCustomary, MakeCustomaryToBase

from .. import explorer, worlds
from ..par import run_sharded
from ..ref.registry import RegistryModel
from ..runner import Part


def _c(a, b, c, d):
    return MakeBaseToCustomary(a, b, c, d), MakeCustomaryToBase(a, b, c, d)


def U(qt, sym, **kw):
    return ("unit", qt, sym, tuple(sorted(kw.items())))


def B(qt, sym):
    return ("base", qt, sym)


def C(name, qt=None, **kw):
    return ("cat", name, qt, tuple(sorted(kw.items())))


def make_ops(thorough):
    ops = [
        B("L", "m"),
        B("T", "s"),
        B("L", "cm"),  # second base for a type / duplicate once cm is a plain unit
        B("T", "m"),  # duplicate across types
        B("V", "Mcf"),
        U("L", "cm"),
        U("L", "m"),  # duplicate in type
        U("T", "cm"),  # duplicate across types
        U("T", "min"),  # possibly before its base unit
        U("L", "bad", broken=True),
        U("L", "k1000ft3"),  # a symbol of the user's own that CONTAINS a legacy token
        C("c1", "L"),
        C("c1", "T", override=True),
        C("c1", "Z"),  # unknown quantity type
        C("c1", "L", override=True, min_value=0.0, max_value=10.0),
        C("c2", "L", valid_units=("cm",)),
        C("c2", "L", valid_units=("s",)),  # outside the type
        C("c2", "V", valid_units=("1000ft3",)),  # legacy spelling
        C("c2", "L", default_unit="cm"),
        C("c2", "L", default_unit="s"),  # outside the type
        C("c2", "L", default_unit="1000ft3"),  # legacy spelling of a unit outside the type
        C("c2", "L", override=True, min_value=0.0, max_value=10.0, default_value=10.0),  # default at the inclusive maximum
        C("c2", "L", max_value=10.0),  # only a maximum: the default value is taken from it
        C("c2", "L", min_value=5.0, max_value=5.0),  # one admissible amount
        C("c2", "L", override=True, min_value=0.0, max_value=10.0, default_value=20.0),  # outside limits
        C("c2", "L", min_value=0.0, is_min_exclusive=True),  # exclusive without default
        C("c2", "L", min_value=10.0, max_value=0.0),
        C("L", "L"),  # category named as its quantity type
        C("L", "T"),  # category named as ANOTHER quantity type
        C("c3", None, from_category="c1"),
        C("c3", None, from_category="c2", default_unit="m", override=True),
        C("c3", None, from_category="zz"),
        C("c3", "L", from_category="c1"),  # both given
    ]
    if thorough:
        ops += [
            C("c1", "L", override=True, max_value=10.0, is_max_exclusive=True, default_value=10.0),  # at exclusive max
            C("c2", "L", override=True, min_value=0.0, max_value=10.0, default_value=5.0),
            C("c2", "L", override=True, min_value=0.0, max_value=10.0, default_value=0.0),  # default at the inclusive minimum
            C("c1", "L", override=True, min_value=0.0, is_min_exclusive=True, default_value=1.0),
            C("c2", "L", override=True, valid_units=("cm", "m"), default_unit="m"),
            C("T", "T", valid_units=("min",)),
            U("V", "MMcf"),
            C("c3", "V", default_unit="M(ft3)"),
            C("c2", "L", valid_units=("cm", "1000ft3")),  # legacy spelling of a unit outside the type among the valid units
        ]
    # not a registration: the application USES what is registered (builds quantities and Scalars for
    # every category and unit, without any clean-up), so that later registrations meet warm caches.
    # The canonical state does not change; the explorer's self-loop lookahead runs and judges every
    # registration once more after it.
    ops.append(("use",))
    ops.append(("clear",))  # UnitDatabase.Clear(): back to an empty registry (nothing of the old one may survive)
    return ops


CONV = {"k1000ft3": (0.0, 5.0, 1.0, 0.0), "cm": (0.0, 0.01, 1.0, 0.0), "min": (0.0, 60.0, 1.0, 0.0), "m": (0.0, 1.0, 1.0, 0.0), "MMcf": (0.0, 1000.0, 1.0, 0.0)}


class Sys:
    def __init__(self):
        self.db = UnitDatabase(default_singleton=True)
        self.model = RegistryModel()
        self.broken = False


def make():
    return Sys()


def fingerprint(db):
    """The registry through its public getters only."""
    units = []
    for qt in db.GetQuantityTypes():
        row = []
        for u in db.GetUnits(qt):
            info = db.GetInfo(qt, u, fix_legacy=False)
            row.append((u, info.name, info.quantity_type, db.GetQuantityType(u), info.default_category, float(info.tobase(2.0)), float(info.frombase(2.0))))
        units.append((qt, tuple(row)))
    all_units = tuple(db.GetUnits())
    cats = []
    for c in sorted(db.IterCategories()):
        i = db.GetCategoryInfo(c)
        cats.append((c, i.quantity_type, None if i.valid_units is None else tuple(i.valid_units), i.default_unit, i.default_value, i.min_value, i.max_value, i.is_min_exclusive, i.is_max_exclusive, i.caption))
    return (tuple(units), all_units, tuple(cats))


def canon(s):
    if s.broken:
        return "BROKEN"
    return fingerprint(s.db)


def invariants(db, has_base=None, full_i4=True):
    """-> list of (name, detail) of violated invariants (empty when well-formed)."""
    bad = []
    seen = {}
    qts = db.GetQuantityTypes()
    for qt in qts:
        try:
            units = db.GetUnits(qt)
        except Exception as e:
            bad.append(("I1:units-raise:%s" % qt, repr(e)))
            continue
        if not units:
            bad.append(("I1:empty-quantity-type:%s" % qt, ""))
            continue
        for u in units:
            if u in seen:
                bad.append(("I1:symbol-in-two-types:%s" % u, [seen[u], qt]))
            seen[u] = qt
            if db.GetQuantityType(u) != qt:
                bad.append(("I1:GetQuantityType:%s" % u, [db.GetQuantityType(u), qt]))
            try:
                info = db.GetInfo(qt, u, fix_legacy=False)
                if info.unit != u or info.quantity_type != qt:
                    bad.append(("I1:GetInfo:%s" % u, [info.unit, info.quantity_type]))
            except Exception as e:
                bad.append(("I1:GetInfo-raises:%s" % u, repr(e)))
        if units.count(units[0]) != 1 or len(set(units)) != len(units):
            bad.append(("I1:duplicate-in-type:%s" % qt, units))
        if has_base is None or qt in has_base:
            first = db.GetBaseUnit(qt)
            info = db.GetInfo(qt, first, fix_legacy=False)
            for x in (0.0, 1.5, -2.0, 1e6):
                if not (info.tobase(x) == x and info.frombase(x) == x):
                    bad.append(("I2:base-not-identity:%s:%s" % (qt, first), [x, info.tobase(x), info.frombase(x)]))
                    break
    if sorted(db.GetUnits()) != sorted(seen):
        bad.append(("I1:GetUnits-all", [sorted(db.GetUnits()), sorted(seen)]))
    for u in seen:
        dc = db.GetDefaultCategory(u)
        if dc is not None and has_base is None and any(True for _ in db.IterCategories()):
            # shipped tables: a unit's default category exists and has the unit's quantity type
            if not db.IsValidCategory(dc) or db.GetCategoryQuantityType(dc) != seen[u]:
                bad.append(("I3:default-category:%s" % u, dc))
    for c in list(db.IterCategories()):
        try:
            info = db.GetCategoryInfo(c)
            qt = info.quantity_type
            if qt not in qts:
                bad.append(("I3:category-type-missing:%s" % c, qt))
                continue
            units = db.GetUnits(qt)
            if db.GetDefaultUnit(c) not in units:
                bad.append(("I3:default-unit-outside-type:%s" % c, db.GetDefaultUnit(c)))
            try:
                vu = db.GetValidUnits(c)
            except Exception as e:
                bad.append(("I3:GetValidUnits-raises:%s" % c, repr(e)))
                vu = []
            if not set(vu) <= set(units):
                bad.append(("I3:valid-units-outside-type:%s" % c, vu))
            if info.valid_units is not None and list(vu) != list(info.valid_units):
                bad.append(("I3:valid-units-differ:%s" % c, [vu, info.valid_units]))
            dv = db.GetDefaultValue(c)
            if info.min_value is not None and not (dv > info.min_value if info.is_min_exclusive else dv >= info.min_value):
                bad.append(("I3:default-below-min:%s" % c, [dv, info.min_value]))
            if info.max_value is not None and not (dv < info.max_value if info.is_max_exclusive else dv <= info.max_value):
                bad.append(("I3:default-above-max:%s" % c, [dv, info.max_value]))
        except Exception as e:
            bad.append(("I3:category-getters-raise:%s" % c, repr(e)))
    # I4: everything registered can be used to build a valid Scalar
    with worlds.installed(db):
        try:
            for c in list(db.IterCategories()):
                try:
                    s = Scalar(c)
                    if not s.IsValid():
                        bad.append(("I4:default-scalar-invalid:%s" % c, repr(s)))
                    if s.GetCategory() != c or s.GetQuantityType() != db.GetCategoryQuantityType(c):
                        bad.append(("I4:default-scalar-strings:%s" % c, repr(s)))
                except Exception as e:
                    bad.append(("I4:default-scalar-raises:%s" % c, repr(e)))
                    continue
                units = db.GetUnits(db.GetCategoryQuantityType(c))
                if c == db.GetCategoryQuantityType(c):
                    # a category named like its quantity type is the default category of the type's units (unless a unit
                    # names one itself): every unit finds it and builds a Scalar without naming a category
                    for u in units:
                        try:
                            dcat = db.GetDefaultCategory(u)
                            if dcat is None:
                                bad.append(("I4:no-default-category:%s" % u, c))
                                continue
                            s = Scalar(1.0, u)
                            if s.GetUnit() != u or s.GetQuantityType() != c:
                                bad.append(("I4:scalar-by-unit-strings:%s" % u, repr(s)))
                        except Exception as e:
                            bad.append(("I4:scalar-by-unit-raises:%s" % u, repr(e)))
                for u in units if full_i4 else units[:3]:
                    try:
                        s = Scalar(1.0, u, c)
                        if s.GetUnit() != u or s.GetCategory() != c:
                            bad.append(("I4:scalar-strings:%s:%s" % (u, c), repr(s)))
                    except Exception as e:
                        bad.append(("I4:scalar-raises:%s:%s" % (u, c), repr(e)))
        finally:
            worlds.clear_caches(db)
    return bad


def use_everything(db):
    from barril.units import Array, ObtainQuantity

    with worlds.installed(db):
        for c in list(db.IterCategories()):
            for f in (lambda: Scalar(c), lambda: Scalar(c).IsValid(), lambda: Array(c), lambda: db.GetValidUnits(c), lambda: db.CheckValueForCategory(c, 1.0)):
                try:
                    f()
                except Exception:
                    pass
            try:
                units = db.GetUnits(db.GetCategoryQuantityType(c))
            except Exception:
                units = []
            for u in units:
                for f in (lambda: db.FindUnitCase(c, u), lambda: db.FindUnitCase(c, u.upper()), lambda: db.FindUnitCase(c, u.lower()), lambda: Scalar(1.0, u, c), lambda: ObtainQuantity(u, c), lambda: ObtainQuantity(u), lambda: Scalar(1.0, u, c).GetValue(units[0]), lambda: db.CheckCategoryUnit(c, u), lambda: Scalar(c, unit=u)):
                    try:
                        f()
                    except Exception:
                        pass
        for name in ("c1", "c2", "L", "T", "V"):
            for u in ("m", "cm", "s", "Mcf", "1000ft3"):
                try:
                    db.CheckCategoryUnit(name, u)
                except Exception:
                    pass


def fmt(op):
    if op[0] == "use":
        return "<use every registered category and unit>"
    if op[0] == "clear":
        return "Clear()"
    if op[0] == "base":
        return "AddUnitBase(%r, %r)" % (op[1], op[2])
    if op[0] == "unit":
        return "AddUnit(%r, %r%s)" % (op[1], op[2], "".join(", %s=%r" % kv for kv in op[3]))
    return "AddCategory(%r, %r%s)" % (op[1], op[2], "".join(", %s=%r" % kv for kv in op[3]))


OPS = {False: make_ops(False), True: make_ops(True)}
_T = {"t": False}


def apply(s, op, part, hist):
    if s.broken:
        return False
    db, model = s.db, s.model
    pre = fingerprint(db) if part is not None else None
    exc = None
    if op[0] == "clear":
        db.Clear()
        s.model.__init__()
        if part is not None:
            part.count("evaluations")
            post = fingerprint(db)
            leftovers = [n for n in ("quantity_types", "unit_to_unit_info", "categories_to_quantity_types") if getattr(db, n, None)]
            if post[0] or post[1] or post[2] or leftovers or list(db.GetQuantityTypes()) or list(db.IterCategories()):
                s.broken = True
                part.violation("C14:%s :: Clear() left something behind" % " ; ".join(fmt(o) for o in [OPS[_T["t"]][i] for i in hist] + [op]), {"after": post, "leftovers": leftovers})
        return True
    if op[0] == "use":
        use_everything(db)
        if part is not None:
            part.count("evaluations")
            part.count("use_steps")
            if fingerprint(db) != pre:
                s.broken = True
                part.violation("C14:%s :: using the registry changed it" % " ; ".join(fmt(o) for o in [OPS[_T["t"]][i] for i in hist] + [op]), {"before": pre, "after": fingerprint(db)})
        return True
    try:
        if op[0] == "base":
            db.AddUnitBase(op[1], op[2] + "-name", op[2])
        elif op[0] == "unit":
            kw = dict(op[3])
            if kw.get("broken"):
                db.AddUnit(op[1], op[2] + "-name", op[2], "no variable here", "%f * 1")
            else:
                fb, tb = _c(*CONV[op[2]])
                db.AddUnit(op[1], op[2] + "-name", op[2], fb, tb)
        else:
            kw = dict(op[3])
            if "valid_units" in kw:
                kw["valid_units"] = list(kw["valid_units"])
            db.AddCategory(op[1], op[2], **kw)
    except Exception as e:
        exc = e
    # model
    if op[0] == "base":
        verdict = lambda m: m.add_unit(op[1], op[2], base=True)
    elif op[0] == "unit":
        verdict = lambda m: m.add_unit(op[1], op[2], broken=dict(op[3]).get("broken", False))
    else:
        kw = dict(op[3])
        mk = dict(
            valid_units=None if "valid_units" not in kw else list(kw["valid_units"]),
            override=kw.get("override", False),
            default_unit=kw.get("default_unit"),
            default_value=kw.get("default_value"),
            min_value=kw.get("min_value"),
            max_value=kw.get("max_value"),
            min_excl=kw.get("is_min_exclusive", False),
            max_excl=kw.get("is_max_exclusive", False),
            from_category=kw.get("from_category"),
        )
        verdict = lambda m: m.add_category(op[1], op[2], **mk)
    # soft rejections follow the implementation: probe on a copy of the model first
    import copy

    probe = copy.deepcopy(model)
    v, hard = verdict(probe)
    if v == "reject" and not hard:
        if exc is None:
            # the implementation accepts what the model would only softly reject: the model has no
            # defined successor, stop exploring below (not a violation of the property) - but what was
            # accepted must still leave a well-formed registry
            s.broken = True
            if part is not None:
                part.count("soft_reject_accepted_by_impl")
                inv = invariants(db)
                if inv:
                    ops_ = OPS[_T["t"]]
                    hist_ops_ = [ops_[i] for i in hist] + [op]
                    part.violation("C14:%s :: invariant %s (after a call the model only softly rejects)" % (" ; ".join(fmt(o) for o in hist_ops_), inv[0][0]), {"violated": inv[:4]},
                                   "import sys\nfrom mc.props import c14\nsys.exit(c14.replay(%r))\n" % (hist_ops_,))
            return True
    else:
        verdict(model)
    if part is None:
        return True
    part.count("evaluations")
    ops = OPS[_T["t"]]
    hist_ops = [ops[i] for i in hist] + [op]
    sig = "C14:%s" % " ; ".join(fmt(o) for o in hist_ops)

    def bad(what, detail):
        s.broken = True
        part.violation(sig + " :: " + what, detail, "import sys\nfrom mc.props import c14\nsys.exit(c14.replay(%r))\n" % (hist_ops,))

    accepted = exc is None
    if (v == "ok") != accepted:
        bad("outcome", {"raised": repr(exc), "model": v})
        return True
    post = fingerprint(db)
    if not accepted:
        part.count("rejected")
        part.add("outcomes", ("reject", type(exc).__name__))
        if post != pre:
            bad("rejected-call-changed-registry", {"raised": repr(exc), "before": pre, "after": post})
        elif db.quantity_types.keys() != {qt for qt, _r in post[0]} or set(db.unit_to_unit_info) != set(post[1]):
            bad("rejected-call-left-debris", {"quantity_types": sorted(db.quantity_types), "unit_to_unit_info": sorted(db.unit_to_unit_info)})
        return True
    part.add("outcomes", ("ok", op[0]))
    # lock-step equality with the model (public getters)
    impl_order = {qt: [r[0] for r in rows] for qt, rows in post[0]}
    if impl_order != model.order:
        bad("unit-order", {"impl": impl_order, "model": model.order})
        return True
    impl_cats = {}
    for c, qt, vu, du, dv, mn, mx, mne, mxe, _cap in post[2]:
        impl_cats[c] = (qt, None if vu is None else list(vu), du, dv, mn, mx, bool(mne), bool(mxe))
    model_cats = {c: (m["quantity_type"], m["valid_units"], m["default_unit"], m["default_value"], m["min_value"], m["max_value"], bool(m["min_excl"]), bool(m["max_excl"])) for c, m in model.categories.items()}
    if impl_cats != model_cats:
        diff = {c: [impl_cats.get(c), model_cats.get(c)] for c in set(impl_cats) | set(model_cats) if impl_cats.get(c) != model_cats.get(c)}
        bad("categories", {"impl_vs_model": diff})
        return True
    inv = invariants(db, has_base=model.has_base)
    if inv:
        bad("invariant " + inv[0][0], {"violated": inv[:4]})
        return True
    if len(post[2]) >= 1 and len(post[1]) >= 2:
        part.add("nontrivial", explorer.digest(post))
    return True


def replay(hist_ops):
    part = Part()
    s = make()
    _T["t"] = True
    ops = OPS[True]
    idx = []
    for op in hist_ops:
        op = tuple(tuple(x) if isinstance(x, list) else x for x in op)
        if op[0] in ("unit", "cat"):
            op = op[:-1] + (tuple((k, tuple(v) if isinstance(v, list) else v) for k, v in op[-1]),)
        apply(s, op, part, tuple(idx))
        idx.append(ops.index(op))
        print(fmt(op), "| units:", {qt: s.db.GetUnits(qt) for qt in s.db.GetQuantityTypes()}, "categories:", sorted(s.db.IterCategories()))
    for v in part.violations:
        print("MISMATCH", v["signature"], v["detail"])
    return 1 if part.violations else 0


def _shipped(world):
    part = Part()
    db = worlds.build(world)
    inv = invariants(db, has_base=None, full_i4=True)
    part.count("evaluations", len(db.unit_to_unit_info) + len(db.categories_to_quantity_types))
    part.count("shipped_units", len(db.unit_to_unit_info))
    part.count("shipped_categories", len(db.categories_to_quantity_types))
    for name, detail in inv:
        part.violation(
            "C14:shipped:%s:%s" % (world, name),
            {"detail": detail},
            "import sys\nfrom mc import worlds\nfrom mc.props import c14\nbad = [b for b in c14.invariants(worlds.build(%r)) if b[0] == %r]\nprint(bad)\nsys.exit(1 if bad else 0)\n" % (world, name),
        )
    return part


def _is_clear(op):
    return op[0] == "clear"


def run(ctx):
    _T["t"] = ctx.thorough
    ops = OPS[ctx.thorough]
    depth = 6 if ctx.thorough else 5
    res = explorer.bfs(ctx, make, apply, ops, canon, max_depth=depth, lookahead=4, distrust=_is_clear)
    run_sharded(ctx, _shipped, ["posc", "posc_nocat", "simple"])
    ctx.level = "model_checking"
    ctx.states = res["states"]
    ctx.transitions = res["transitions"]
    ctx.traces = res["transitions"]
    ctx.exhaustive = True
    ctx.part.sample({"deepest_history": [fmt(ops[i]) for i in res["deepest"]]})
    ctx.part.sample({"operations": [fmt(o) for o in ops]})
    ctx.rule = (
        "BFS to depth %d over %d operations (registration calls + one step that uses every registered category and unit; every self-loop of a history shorter than 4 is followed by all operations once more) on an empty UnitDatabase in lock-step with the registry model, invariants I1-I4 in every state; "
        "non-trivial = distinct registries with >= 2 units and >= 1 category; outcomes = distinct (verdict, exception class / call kind); plus every unit and category of posc, posc_nocat, simple"
        % (depth, len(ops))
    )
    ctx.coverage_extra = {
        "fixpoint": res["fixpoint"],
        "max_depth": res["depth"],
        "open_frontier": res["open_frontier"],
        "rejected_calls": ctx.part.counters.get("rejected", 0),
        "shipped_units_checked": ctx.part.counters.get("shipped_units", 0),
        "shipped_categories_checked": ctx.part.counters.get("shipped_categories", 0),
        "alphabet": {"operations": len(ops)},
    }
    ctx.assumptions = [
        "acceptance is predicted only for the rules the property states; implementation-defined argument validation (both quantity_type and from_category, max < min, exclusive limit without default) follows the implementation and is judged for atomicity only",
        "caption and inheritance of the exclusivity flags through from_category are not compared; an explicitly passed default_unit outside explicitly passed valid_units is accepted by design",
        "histories deeper than the bound are not covered (the search is not a fixpoint)",
    ]
