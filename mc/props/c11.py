"""
C11  Size invariants: FixedArray dimension (>= 2) and Curve image/domain length.

Explicit-state search to a FIXPOINT.
FixedArray: initial states = every constructor form x dimension 0..N x value length 0..N x
list/tuple/ndarray (+ CreateWithQuantity, CreateEmptyArray, category-only forms); transitions =
CreateCopy variants, arithmetic with numbers / Arrays / FixedArrays / ndarrays of every length,
pickle, ChangingIndex (every index, every value form, both use_value_unit), IndexAsScalar.
Canonical state = (dimension, container kind, unit, category) - element values are dropped
because no size behaviour depends on them.
Curve: states (len image, len domain); transitions constructor / SetImage / SetDomain with Arrays
and FixedArrays of every length; accepted and rejected calls.
"""
import pickle
from collections import deque

import numpy as np

from barril.curve.curve import Curve
from barril.units import Array, FixedArray, ObtainQuantity, Quantity, Scalar, UnitDatabase

from .. import worlds
from ..ref.dims import close

KINDS = {"list": list, "tuple": tuple, "ndarray": lambda v: np.array(v, dtype=float)}
REJECT = (ValueError,)


def vals(n, kind, start=1.0):
    return KINDS[kind]([start + i for i in range(n)])


def kind_of(v):
    return "ndarray" if isinstance(v, np.ndarray) else type(v).__name__


def key(f):
    q = f.GetQuantity()
    return (f.dimension, kind_of(f.GetValues()), q.GetUnit(), q.GetCategory())


def src_snap(f):
    v = f.GetValues()
    return (f.dimension, kind_of(v), tuple(np.asarray(v, dtype=float).ravel().tolist()) if len(v) else (), f.GetUnit(), f.GetCategory())


class Search:
    def __init__(self, part, N):
        self.part = part
        self.N = N
        self.seen = {}
        self.work = deque()
        self.transitions = 0

    def wellformed(self, f, how):
        """The invariant on every FixedArray that comes into existence."""
        try:
            n = len(f.GetValues())
            ok = isinstance(f.dimension, int) and f.dimension >= 2 and n == f.dimension and len(f) == n
        except Exception as e:
            ok, n = False, repr(e)
        if not ok:
            self.part.violation("C11:invariant:" + how, {"dimension": f.dimension, "len_values": n, "object": repr(f)}, self.snip(how))
        return ok

    def snip(self, how):
        return (
            "import numpy as np, pickle\nfrom mc import worlds\nfrom barril.units import *\nfrom barril.units import FixedArray, Array, Scalar, ObtainQuantity\n"
            "with worlds.world('posc') as db:\n    try:\n        f = %s\n    except Exception as e:\n        print('raised', repr(e)); raise SystemExit(0 if isinstance(e, ValueError) else 1)\n"
            "    print(repr(f), getattr(f, 'dimension', None))\n    assert not isinstance(f, FixedArray) or (len(f.GetValues()) == f.dimension >= 2), (f.dimension, len(f.GetValues()))\n" % how
        )

    def attempt(self, how, thunk, must=None, src=None):
        """
        must: True  -> has to succeed;  False -> has to raise ValueError (size-breaking attempt);
              None  -> either (judged by the invariant on the result only)
        """
        self.transitions += 1
        self.part.count("evaluations")
        before = src_snap(src) if src is not None else None
        try:
            r = thunk()
            err = None
        except Exception as e:
            r, err = None, e
        self.part.add("outcomes", (how.split("(")[0][:40], type(err).__name__ if err else type(r).__name__))
        if src is not None and src_snap(src) != before:
            self.part.violation("C11:source-changed:" + how, {"before": before, "after": src_snap(src), "raised": repr(err)}, self.snip(how))
        if err is not None:
            self.part.count("rejected")
            if must is True:
                self.part.violation("C11:valid-attempt-rejected:" + how, {"raised": repr(err)}, self.snip(how))
            elif must is False and not isinstance(err, REJECT):
                self.part.violation("C11:wrong-exception:" + how, {"raised": repr(err), "expected": "ValueError"}, self.snip(how))
            return None
        if must is False:
            self.part.violation("C11:size-breaking-attempt-accepted:" + how, {"result": repr(r), "dimension": getattr(r, "dimension", None)}, self.snip(how))
        if isinstance(r, FixedArray):
            if self.wellformed(r, how):
                k = key(r)
                if k not in self.seen:
                    self.seen[k] = how
                    self.work.append((r, how))
        return r


def fixedarray_search(part, N):
    S = Search(part, N)
    qm = "ObtainQuantity('m', 'length')"
    for d in range(0, N + 1):
        for kind in KINDS:
            for n in range(0, N + 1):
                v = vals(n, kind)
                lit = "%s(%r)" % ({"list": "list", "tuple": "tuple", "ndarray": "np.array"}[kind], [1.0 + i for i in range(n)])
                valid = d >= 2 and n == d
                S.attempt("FixedArray(%d, %s, 'm')" % (d, lit), lambda: FixedArray(d, v, "m"), valid)
                S.attempt("FixedArray(%d, 'depth', %s, 'cm')" % (d, lit), lambda: FixedArray(d, "depth", v, "cm"), valid)
                S.attempt("FixedArray(%d, %s, %s)" % (d, qm, lit), lambda: FixedArray(d, ObtainQuantity("m", "length"), v), valid)
                S.attempt("FixedArray.CreateWithQuantity(%s, %s, dimension=%d)" % (qm, lit, d), lambda: FixedArray.CreateWithQuantity(ObtainQuantity("m", "length"), v, dimension=d), valid)
                S.attempt("FixedArray.CreateEmptyArray(%d, %s)" % (d, lit), lambda: FixedArray.CreateEmptyArray(d, v), valid)
                if d == 0:
                    # dimension taken from the values
                    S.attempt("FixedArray.CreateWithQuantity(%s, %s)" % (qm, lit), lambda: FixedArray.CreateWithQuantity(ObtainQuantity("m", "length"), v), n >= 2)
        S.attempt("FixedArray(%d, 'length')" % d, lambda: FixedArray(d, "length"), d >= 2)
        S.attempt("FixedArray(%d, %s)" % (d, qm), lambda: FixedArray(d, ObtainQuantity("m", "length")), d >= 2)
        S.attempt("FixedArray(%d, 'length', unit='cm')" % d, lambda: FixedArray(d, "length", unit="cm"), d >= 2)
        S.attempt("FixedArray.CreateEmptyArray(%d)" % d, lambda: FixedArray.CreateEmptyArray(d), d >= 2)
    db = UnitDatabase.GetSingleton()
    while S.work:
        f, how = S.work.popleft()
        d = f.dimension
        unit = f.GetUnit()
        q = f.GetQuantity()
        simple = not q.IsDerived() and unit != ""
        base = "(%s)" % how
        S.attempt(base + ".CreateCopy()", lambda: f.CreateCopy(), True, f)
        S.attempt("pickle.loads(pickle.dumps(%s))" % how, lambda: pickle.loads(pickle.dumps(f)), True, f)
        if simple:
            S.attempt(base + ".CreateCopy(unit='km')", lambda: f.CreateCopy(unit="km"), True, f)
            S.attempt(base + ".CreateCopy(values=%r, unit='cm')" % ([0.0] * d,), lambda: f.CreateCopy(values=[0.0] * d, unit="cm"), True, f)
        for kind in KINDS:
            for n in range(0, S.N + 1):
                v = vals(n, kind, 10.0)
                lit = "%s(%r)" % ({"list": "list", "tuple": "tuple", "ndarray": "np.array"}[kind], [10.0 + i for i in range(n)])
                S.attempt(base + ".CreateCopy(values=%s)" % lit, lambda: f.CreateCopy(values=v), n == d, f)
                # ... also together with a unit (and a unit + category): for a quantity without category (the
                # result of length / length, CreateEmptyArray) this takes a branch of its own
                if not q.IsDerived() or unit == "":
                    S.attempt(base + ".CreateCopy(values=%s, unit='m')" % lit, lambda: f.CreateCopy(values=v, unit="m"), (n == d) if (unit == "" or simple and q.GetQuantityType() == "length") else None, f)
                    S.attempt(base + ".CreateCopy(values=%s, unit='m', category='length')" % lit, lambda: f.CreateCopy(values=v, unit="m", category="length"), n == d, f)
                # arithmetic with Arrays / FixedArrays / raw ndarrays of every length
                for opn, op in (("+", lambda a, b: a + b), ("*", lambda a, b: a * b), ("-", lambda a, b: a - b), ("/", lambda a, b: a / b)):
                    if simple:
                        S.attempt(base + " %s Array(%s, 'cm')" % (opn, lit), lambda: op(f, Array(v, "cm")), None, f)
                        if n >= 2:
                            S.attempt("FixedArray(%d, %s, 'cm') %s %s" % (n, lit, opn, base), lambda: op(FixedArray(n, v, "cm"), f), None, f)
                    if kind == "ndarray":
                        S.attempt(base + " %s %s" % (opn, lit), lambda: op(f, v), None, f)
                        S.attempt("%s %s %s" % (lit, opn, base), lambda: op(v, f), None, f)
        for opn, op in (("+", lambda a, b: a + b), ("*", lambda a, b: a * b), ("-", lambda a, b: a - b), ("/", lambda a, b: a / b), ("//", lambda a, b: a // b)):
            S.attempt(base + " %s 2.0" % opn, lambda: op(f, 2.0), True, f)
            # (a number divided by an array holding zeros may raise ZeroDivisionError: not a size matter)
            S.attempt("2.0 %s " % opn + base, lambda: op(2.0, f), None if "/" in opn else True, f)
        # a 2-d ndarray as the other operand (broadcasting adds an axis) or as the values of a copy: whatever comes out
        # still has len(values) == dimension, or the attempt is refused
        S.attempt(base + " * np.array([[1.0], [2.0]])", lambda: f * np.array([[1.0], [2.0]]), None, f)
        S.attempt("np.array([[1.0], [2.0]]) + " + base, lambda: np.array([[1.0], [2.0]]) + f, None, f)
        S.attempt(base + ".CreateCopy(values=np.ones((2, %d)))" % d, lambda: f.CreateCopy(values=np.ones((2, d))), None, f)
        S.attempt(base + ".CreateCopy(values=np.ones((%d, 2)))" % d, lambda: f.CreateCopy(values=np.ones((d, 2))), None, f)
        if simple:  # (derived * derived would grow the unit without bound)
            S.attempt(base + " * " + base, lambda: f * f, True, f)
        # ChangingIndex / IndexAsScalar
        if simple and q.GetQuantityType() == "length":
            forms = [
                ("7.5", lambda: 7.5),
                ("Scalar(7.5, %r, %r)" % (unit, q.GetCategory()), lambda: Scalar(7.5, unit, q.GetCategory())),
                ("Scalar(7.5, 'km', 'length')", lambda: Scalar(7.5, "km", "length")),
                ("(7.5, 'cm')", lambda: (7.5, "cm")),
            ]
            for i in range(-d - 1, d + 1):
                valid_i = -d <= i < d
                for lit, mk in forms:
                    for uvu in (True, False):
                        how2 = base + ".ChangingIndex(%d, %s, use_value_unit=%r)" % (i, lit, uvu)
                        r = S.attempt(how2, lambda: f.ChangingIndex(i, mk(), use_value_unit=uvu), True if valid_i else None, f)
                        if r is None or not valid_i:
                            if r is not None and not valid_i:
                                part.violation("C11:bad-index-accepted:" + how2, {"result": repr(r)})
                            continue
                        part.count("evaluations")
                        v = mk()
                        if isinstance(v, tuple):
                            amount, aunit = v
                        elif isinstance(v, Scalar):
                            amount, aunit = v.value, v.unit
                        else:
                            amount, aunit = v, unit
                        runit = r.GetUnit()
                        exp_unit = unit if not uvu else aunit
                        rv = list(r.GetValues())
                        sv = list(f.GetValues())
                        ok = r.dimension == d and runit == exp_unit
                        if not uvu and r.GetQuantity() != q:
                            ok = False
                        # a plain number or a (value, unit) pair brings no category of its own: the result
                        # "differs from the original only at the given index" - it stays in the array's category
                        if not isinstance(v, Scalar) and r.GetCategory() != q.GetCategory():
                            ok = False
                        for j in range(d):
                            e = db.Convert("length", aunit, runit, amount) if j == i % d else db.Convert("length", unit, runit, sv[j])
                            if not close(rv[j], e, max(abs(e), 1e-300), 1e-12):
                                ok = False
                        if not ok:
                            part.violation("C11:ChangingIndex:" + how2, {"source": repr(f), "result": repr(r), "result_values": [float(x) for x in rv], "expected_unit": exp_unit}, S.snip(how2))
                how3 = base + ".IndexAsScalar(%d, ObtainQuantity('km', %r))" % (i, q.GetCategory())
                r = S.attempt(how3, lambda: f.IndexAsScalar(i, ObtainQuantity("km", q.GetCategory())), True if valid_i else None, f)
                if r is not None and valid_i:
                    e = db.Convert("length", unit, "km", list(f.GetValues())[i])
                    if not (isinstance(r, Scalar) and r.GetUnit() == "km" and r.GetCategory() == q.GetCategory() and close(r.value, e, max(abs(e), 1e-300))):
                        part.violation("C11:IndexAsScalar:" + how3, {"result": repr(r), "expected_value": e}, S.snip(how3))
                r = S.attempt(base + ".IndexAsScalar(%d)" % i, lambda: f.IndexAsScalar(i), True if valid_i else None, f)
                if r is not None and valid_i and not (r.value == list(f.GetValues())[i] and r.GetQuantity() == q):
                    part.violation("C11:IndexAsScalar:" + base + ".IndexAsScalar(%d)" % i, {"result": repr(r)})
            if unit in ("m", "cm", "km"):
                shared_container_sequences(part, db, f, how)
    return S


def shared_container_sequences(part, db, f, how):
    """Two FixedArrays that share ONE values container but carry different units, queried alternately for
    the same target unit (a result must not depend on what another array was asked before)."""
    d = f.dimension
    unit = f.GetUnit()
    cat = f.GetCategory()
    other = "cm" if unit != "cm" else "m"
    shared = f.GetValues()
    twins = [
        ("CreateCopy(values=<same container>, unit=%r)" % other, lambda: f.CreateCopy(values=shared, unit=other)),
        ("FixedArray(%d, <same container>, %r)" % (d, other), lambda: FixedArray(d, shared, other)),
    ]
    for tname, mk in twins:
        try:
            g = mk()
        except Exception as e:
            part.violation("C11:shared-container:(%s).%s:raised" % (how, tname), {"error": repr(e)})
            continue
        for target in ("km", "m", "cm"):
            tq = ObtainQuantity(target, cat)
            seq = [(f, unit, "a"), (g, other, "b"), (f, unit, "a"), (g, other, "b")]
            done = []
            for obj, u, nm in seq:
                for i in (0, d - 1):
                    part.count("evaluations")
                    done.append("%s.IndexAsScalar(%d, %s)" % (nm, i, target))
                    r = obj.IndexAsScalar(i, tq)
                    e = db.Convert("length", u, target, float(list(obj.GetValues())[i]))
                    if not (r.GetUnit() == target and close(r.value, e, max(abs(e), 1e-300), 1e-12)):
                        part.violation(
                            "C11:shared-container:a = %s ; b = a.%s ; %s" % (how, tname, " ; ".join(done)),
                            {"result": repr(r), "expected_value": e},
                            "import numpy as np\nfrom mc import worlds\nfrom barril.units import *\nfrom barril.units import FixedArray, ObtainQuantity\nwith worlds.world('posc') as db:\n    a = %s\n    b = FixedArray(a.dimension, a.GetValues(), %r)\n    q = ObtainQuantity(%r, a.GetCategory())\n    r1 = a.IndexAsScalar(0, q)\n    r2 = b.IndexAsScalar(0, q)\n    print(r1, r2)\n    assert abs(r2.value - db.Convert('length', %r, %r, float(list(b.GetValues())[0]))) <= 1e-12 * abs(r2.value)\n" % (how, other, target, other, target),
                        )
                        return
                part.count("evaluations")
                done.append("%s.ChangingIndex(1, 7.5, use_value_unit=False).GetValues(%s)" % (nm, target))
                r = obj.ChangingIndex(1, 7.5, use_value_unit=False)
                got = [float(x) for x in r.GetValues(target)]
                exp = [db.Convert("length", u, target, 7.5 if j == 1 else float(list(obj.GetValues())[j])) for j in range(d)]
                if not all(close(a, b, max(abs(b), 1e-300), 1e-12) for a, b in zip(got, exp)):
                    part.violation("C11:shared-container:a = %s ; b = a.%s ; %s" % (how, tname, " ; ".join(done)), {"result": got, "expected": exp})
                    return
        part.count("shared_container_sequences")


def curve_search(part, N):
    """States (len image, len domain) to a fixpoint; returns (states, transitions)."""
    seen = set()
    work = deque()
    transitions = 0

    def arrays(n):
        out = [("Array(%r, 'm')" % ([1.0] * n,), lambda: Array([1.0] * n, "m")), ("Array(np.zeros(%d), 's')" % n, lambda: Array(np.zeros(n), "s"))]
        if n >= 2:
            out.append(("FixedArray(%d, %r, 'm')" % (n, (2.0,) * n), lambda: FixedArray(n, (2.0,) * n, "m")))
        # n ENTRIES that are themselves pairs / rows: the length of a curve's array is its number of entries
        out.append(("Array(%r, 'm')" % ([(1.0, 2.0)] * n,), lambda: Array([(1.0, 2.0)] * n, "m")))
        out.append(("Array(np.ones((%d, 2)), 'm')" % n, lambda: Array(np.ones((n, 2)), "m")))
        return out

    def judge(c, how, err):
        nonlocal transitions
        transitions += 1
        part.count("evaluations")
        li, ld = len(c.GetImage().GetValues()), len(c.GetDomain().GetValues())
        part.add("outcomes", ("curve", li, ld, type(err).__name__ if err else "ok"))
        if li != ld or c.GetLength() != li:
            part.violation("C11:curve:" + how, {"len_image": li, "len_domain": ld, "raised": repr(err)}, "from mc import worlds\nimport numpy as np\nfrom barril.units import Array, FixedArray\nfrom barril.curve.curve import Curve\nwith worlds.world('posc'):\n    %s\n    assert len(c.GetImage().GetValues()) == len(c.GetDomain().GetValues())\n" % how.replace(" ; ", "\n    "))
        return (li, ld)

    for n in range(N + 1):
        for m in range(N + 1):
            for li, mi in arrays(n):
                for ld, md in arrays(m):
                    how = "c = Curve(%s, %s)" % (li, ld)
                    transitions += 1
                    part.count("evaluations")
                    try:
                        c = Curve(mi(), md())
                    except Exception as e:
                        part.count("rejected")
                        if n == m or not isinstance(e, ValueError):
                            part.violation("C11:curve-constructor:" + how, {"raised": repr(e)})
                        continue
                    if n != m:
                        part.violation("C11:curve-constructor-accepted:" + how, {"len_image": n, "len_domain": m})
                        continue
                    k = judge(c, how, None)
                    if k not in seen:
                        seen.add(k)
                        work.append((how, mi, md))
    while work:
        how, mi, md = work.popleft()
        for n in range(N + 1):
            for lit, mk in arrays(n):
                for meth in ("SetImage", "SetDomain", "image=", "domain="):
                    c = Curve(mi(), md())
                    size = c.GetLength()
                    step = "c.%s(%s)" % (meth, lit) if "=" not in meth else "c.%s %s" % (meth.replace("=", " ="), lit)
                    try:
                        if meth == "SetImage":
                            c.SetImage(mk())
                        elif meth == "SetDomain":
                            c.SetDomain(mk())
                        elif meth == "image=":
                            c.image = mk()
                        else:
                            c.domain = mk()
                        err = None
                    except Exception as e:
                        err = e
                        part.count("rejected")
                    k = judge(c, how + " ; " + ("try: %s\n    except ValueError: pass" % step if err else step), err)
                    if (err is None) != (n == size) or (err is not None and not isinstance(err, ValueError)):
                        part.violation("C11:curve-verdict:" + how + " ; " + step, {"raised": repr(err), "curve_length": size, "new_length": n})
                    if k not in seen:
                        seen.add(k)
                        work.append((how + " ; " + step, mi, md))
                    # one more call on the SAME curve after every accepted or rejected call (a rejected
                    # call merges with its source in the state graph: its futures must be the same)
                    size1 = n if err is None else size
                    for n2 in range(N + 1):
                        for lit2, mk2 in arrays(n2):
                            for meth2 in ("SetImage", "SetDomain"):
                                c2 = Curve(mi(), md())
                                try:
                                    getattr(c2, meth.replace("=", "") if "=" not in meth else "Set" + meth[0].upper() + meth[1:-1])(mk())
                                except Exception:
                                    pass
                                step2 = "c.%s(%s)" % (meth2, lit2)
                                try:
                                    getattr(c2, meth2)(mk2())
                                    err2 = None
                                except Exception as e:
                                    err2 = e
                                part.count("curve_second_steps")
                                judge(c2, how + " ; " + ("try: %s\n    except ValueError: pass" % step if err else step) + " ; " + ("try: %s\n    except ValueError: pass" % step2 if err2 else step2), err2)
                                if (err2 is None) != (n2 == size1) or (err2 is not None and not isinstance(err2, ValueError)):
                                    part.violation("C11:curve-verdict:" + how + " ; " + step + " ; " + step2, {"raised": repr(err2), "curve_length": size1, "new_length": n2, "first_step_rejected": err is not None})
    return len(seen), transitions


def run(ctx):
    N = 8 if ctx.thorough else 6
    part = ctx.part
    with worlds.world("posc"):
        S = fixedarray_search(part, N)
        cs, ct = curve_search(part, N if ctx.thorough else 3)
    ctx.level = "model_checking"
    ctx.states = len(S.seen) + cs
    ctx.transitions = S.transitions + ct
    ctx.traces = ctx.transitions
    ctx.nontrivial = len(S.seen) + cs
    for k, how in list(S.seen.items())[:3] + list(S.seen.items())[-2:]:
        part.sample({"state": k, "first_reached_by": how})
    ctx.rule = (
        "worklist search to a fixpoint: FixedArray states (dimension, container kind, unit, category) from every constructor form x dimension 0..%d x length 0..%d x container kind, closed under CreateCopy / arithmetic / pickle / ChangingIndex / IndexAsScalar; "
        "two FixedArrays sharing one container with different units queried alternately; Curve states (len image, len domain) closed under SetImage / SetDomain, every accepted or rejected call followed by every call once more on the same curve; non-trivial = distinct canonical states; outcomes = distinct (operation, result class / exception)" % (N, N)
    )
    ctx.coverage_extra = {"fixpoint": True, "fixedarray_states": len(S.seen), "curve_states": cs, "rejected_attempts": part.counters.get("rejected", 0), "alphabet": {"max_dimension": N, "containers": list(KINDS)}}
    ctx.assumptions = [
        "element values are dropped from the canonical state: no size behaviour depends on them",
        "an out-of-range index may raise IndexError (it does not break a size invariant); size-breaking constructor / CreateCopy(values=) attempts must raise ValueError",
    ]
