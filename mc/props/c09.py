"""
C09  Plain numbers act as dimensionless operands and never strip the unit.

Input space (complete product, no sampling):
    x   every value-object shape of a pool: Scalar / Array[list|tuple|ndarray] / FixedArray[list|tuple|ndarray],
        each with a simple quantity, a second category of the same type, a derived quantity
        (states of the derived-quantity graph of mc.algebra, depth 2: every ordered composing map),
        the empty quantity and an unknown quantity;
    k   python int/float/bool, numpy float64/float32/float16/int8..int64/uint8 scalars, and for array x
        additionally ndarrays (float and int dtype, matching length) and 0-d ndarrays;
    op  the ten expressions  k*x x*k x/k x//k x+k k+x x-k k-x k/x k//x;
    two value assignments (one with negative and fractional values).
thorough adds every unit of the shipped table as x's unit (k*x, x*k, x+k, k-x, k/x, k//x on Scalar and Array).

Oracle: the result is an instance of x's class; for the first eight its quantity == x's; for k/x and
k//x its dimension is the reciprocal of x's (dims model) with the same units, and a dimensionless x stays
dimensionless; the value(s) equal the operation applied to the raw value(s) with k taken as a python
number (float32/float16 operands compared at that precision: numpy may legitimately keep the
narrower type).  Scalar with an ndarray k is outside the alphabet (no branch in the code, and the
property's ndarray clause is about containers).
"""
import math

import numpy as np

from barril.units import Array, FixedArray, GetUnknownQuantity, ObtainQuantity, Quantity, Scalar

from .. import algebra, worlds
from ..par import run_sharded
from ..ref.dims import Model
from ..runner import Part

EXPRS = ["k*x", "x*k", "x/k", "x//k", "x+k", "k+x", "x-k", "k-x", "k/x", "k//x"]
KEEP = EXPRS[:8]

SCALAR_K = [
    ("int 2", lambda: 2, 2, None),
    ("int -3", lambda: -3, -3, None),
    ("float 2.5", lambda: 2.5, 2.5, None),
    ("float -0.5", lambda: -0.5, -0.5, None),
    ("bool True", lambda: True, 1, None),
    ("int 0", lambda: 0, 0, None),
    ("float 0.0", lambda: 0.0, 0.0, None),
    ("float -0.0", lambda: -0.0, -0.0, None),
    ("bool False", lambda: False, 0, None),
    ("np.float64 0.0", lambda: np.float64(0.0), 0.0, None),
    ("np.int32 0", lambda: np.int32(0), 0, None),
    ("int 1", lambda: 1, 1, None),
    ("float 1.0", lambda: 1.0, 1.0, None),
    ("int -1", lambda: -1, -1, None),
    ("np.float64 2.5", lambda: np.float64(2.5), 2.5, None),
    ("np.float32 2.5", lambda: np.float32(2.5), 2.5, 1e-6),
    ("np.float16 2.5", lambda: np.float16(2.5), 2.5, 2e-3),
    ("np.int8 2", lambda: np.int8(2), 2, None),
    ("np.int16 -3", lambda: np.int16(-3), -3, None),
    ("np.int32 2", lambda: np.int32(2), 2, None),
    ("np.int64 -3", lambda: np.int64(-3), -3, None),
    ("np.uint8 2", lambda: np.uint8(2), 2, None),
]


def array_k(n):
    out = [
        ("ndarray float len %d" % n, lambda n=n: np.array([2.5, -0.5, 4.0, 8.0][:n]), [2.5, -0.5, 4.0, 8.0][:n], None),
        ("ndarray int len %d" % n, lambda n=n: np.array([2, -3, 4, 5][:n]), [2, -3, 4, 5][:n], None),
        ("ndarray 0-d float", lambda: np.array(2.5), 2.5, None),
        ("ndarray 0-d int", lambda: np.array(2), 2, None),
    ]
    return out


VALUES = [[6.0, 9.0, 12.0, 15.0], [-7.5, 0.25, 13.0, -1.5]]


def _pyop(expr, xv, kv):
    if expr == "k*x":
        return kv * xv
    if expr == "x*k":
        return xv * kv
    if expr == "x/k":
        return xv / kv
    if expr == "x//k":
        return xv // kv
    if expr == "x+k":
        return xv + kv
    if expr == "k+x":
        return kv + xv
    if expr == "x-k":
        return xv - kv
    if expr == "k-x":
        return kv - xv
    if expr == "k/x":
        return kv / xv
    if expr == "k//x":
        return kv // xv
    raise KeyError(expr)


def _apply(expr, x, k):
    return _pyop(expr, x, k)


def quantity_pool(db, depth):
    """-> list of (name, quantity factory expr string, quantity)"""
    out = []
    out.append(("simple m/length", "ObtainQuantity('m', 'length')", ObtainQuantity("m", "length")))
    out.append(("simple km/depth", "ObtainQuantity('km', 'depth')", ObtainQuantity("km", "depth")))
    out.append(("affine degC", "ObtainQuantity('degC', 'temperature')", ObtainQuantity("degC", "temperature")))
    out.append(("empty", "Quantity.CreateEmpty()", Quantity.CreateEmpty()))
    out.append(("unknown", "GetUnknownQuantity('cap')", GetUnknownQuantity("cap")))
    states, _t = algebra.explore(db, depth)
    for st in states:
        if st.depth < 2:
            continue
        out.append(("derived " + algebra.describe(st.history), "(%s).GetQuantity()" % algebra.expr(st.history), st.scalar.GetQuantity()))
    return out


SHAPES = [
    ("Scalar", None),
    ("Array", "list"),
    ("Array", "tuple"),
    ("Array", "ndarray"),
    ("FixedArray", "list"),
    ("FixedArray", "tuple"),
    ("FixedArray", "ndarray"),
    ("Array", "ndarray:int32"),
    ("Array", "ndarray:int64"),
    ("Array", "ndarray:float32"),
    ("FixedArray", "ndarray:int16"),
]


def _container(kind, vals):
    if kind == "list":
        return list(vals)
    if kind == "tuple":
        return tuple(vals)
    if ":" in kind:
        dt = kind.split(":")[1]
        return np.array([int(v) for v in vals], dtype=dt) if dt.startswith(("int", "uint")) else np.array(vals, dtype=dt)
    return np.array(vals, dtype=float)


def build(cls, kind, q, vals, n):
    if cls == "Scalar":
        return Scalar.CreateWithQuantity(q, vals[0])
    if cls == "Array":
        return Array.CreateWithQuantity(q, _container(kind, vals[:n]))
    return FixedArray.CreateWithQuantity(q, _container(kind, vals[:n]), dimension=n)


def build_expr(cls, kind, qexpr, vals, n):
    cont = {"list": "%r", "tuple": "tuple(%r)", "ndarray": "np.array(%r)", "ndarray:int32": "np.array(%r).astype('int32')", "ndarray:int64": "np.array(%r).astype('int64')", "ndarray:float32": "np.array(%r, dtype='float32')", "ndarray:int16": "np.array(%r).astype('int16')"}
    if cls == "Scalar":
        return "Scalar.CreateWithQuantity(%s, %r)" % (qexpr, vals[0])
    c = cont[kind] % (list(vals[:n]),)
    if cls == "Array":
        return "Array.CreateWithQuantity(%s, %s)" % (qexpr, c)
    return "FixedArray.CreateWithQuantity(%s, %s, dimension=%d)" % (qexpr, c, n)


def _values_of(obj):
    if isinstance(obj, Scalar):
        return [obj.GetValue()]
    v = obj.GetValues()
    return [float(e) for e in v]


def judge(part, model, db, sig, snippet, expr, x, q, xvals, kpy, ktol, result):
    """Compare one result with the oracle; returns an outcome key."""
    cls = type(x)
    if type(result) is not cls:
        part.violation(sig + ":not a barril object of x's class", {"result_type": type(result).__name__, "result": repr(result)[:200]}, snippet)
        return ("wrong-class", type(result).__name__)
    rq = result.GetQuantity()
    if expr in KEEP:
        if not (rq == q):
            part.violation(sig + ":quantity changed", {"x": repr(q), "result": repr(rq)}, snippet)
            return ("quantity-changed",)
    else:
        want = {k: -e for k, e in model.dimension(q).items()}
        got = model.dimension(rq)
        if got != want:
            part.violation(sig + ":not the reciprocal dimension", {"x": repr(q), "result": repr(rq), "want": want, "got": got}, snippet)
            return ("wrong-dimension",)
        # same composing units with negated exponents (no silent re-scaling)
        wu = {u: -e for u, e in q.GetComposingUnitsJoiningExponents()}
        gu = dict(rq.GetComposingUnitsJoiningExponents())
        wu = {u: e for u, e in wu.items() if e}
        if gu != wu:
            part.violation(sig + ":reciprocal has other units", {"x": repr(q), "result": repr(rq)}, snippet)
            return ("wrong-units",)
        if not q.GetCategoryToUnitAndExps() and rq.GetCategoryToUnitAndExps():
            part.violation(sig + ":dimensionless operand gained a unit", {"result": repr(rq)}, snippet)
    # values
    try:
        got_vals = _values_of(result)
    except Exception as e:
        part.violation(sig + ":result values unreadable", {"error": repr(e)}, snippet)
        return ("unreadable",)
    klist = kpy if isinstance(kpy, list) else [kpy] * len(xvals)
    if len(got_vals) != len(xvals):
        part.violation(sig + ":length changed", {"got": got_vals, "x": xvals}, snippet)
        return ("length",)
    for xv, kv, gv in zip(xvals, klist, got_vals):
        try:
            want_v = float(_pyop(expr, float(xv), kv))
        except ZeroDivisionError:
            continue
        tol = ktol or 0.0
        ok = gv == want_v or (tol and abs(gv - want_v) <= tol * max(abs(want_v), abs(xv), abs(kv), 1.0))
        if not ok and expr in ("x//k", "k//x") and tol:
            ok = abs(gv - want_v) <= 1.0  # flooring next to an integer at reduced precision
        if not ok:
            part.violation(sig + ":wrong value", {"got": got_vals, "want_elem": want_v, "x": xvals, "k": repr(kpy)}, snippet)
            return ("value",)
    if isinstance(result, FixedArray) and result.dimension != x.dimension:
        part.violation(sig + ":dimension changed", {"got": result.dimension}, snippet)
    return ("ok", expr in KEEP)


def _mixed_task(_):
    """x holds two units of one quantity type (only obtainable from a hand-made composing map): the implementation
    unifies the units of k/x and k//x, so those are judged by physical amount (k divided by x's amount in base
    units); k*x, x*k, x/k, x+k ... keep x's quantity and the raw values."""
    import math
    from collections import OrderedDict

    from barril.units import Quantity

    from .c04 import MIXED

    part = Part()
    with worlds.world("posc") as db:
        model = Model(db)
        for name, entries in MIXED:
            for cls in ("Scalar", "Array"):
                for k in (2.0, 3, np.float64(2.5), np.int64(4)):
                    q = Quantity.CreateDerived(OrderedDict((c, list(ue)) for c, ue in entries))
                    mk = (lambda: Scalar(q, 60.0)) if cls == "Scalar" else (lambda: Array(q, [60.0, -7.5]))
                    xv = [60.0] if cls == "Scalar" else [60.0, -7.5]
                    sig0 = "C09:mixed units %s:%s:k=%r" % (name, cls, k)
                    for expr in EXPRS:
                        part.count("evaluations")
                        part.count("mixed_unit_operands")
                        try:
                            r = _apply(expr, mk(), k)
                        except Exception as e:
                            part.violation(sig0 + ":" + expr + ":raised", {"error": repr(e)})
                            continue
                        if type(r).__name__ != cls:
                            part.violation(sig0 + ":" + expr + ":not an object of x's class", {"result": repr(r)})
                            continue
                        got = _values_of(r)
                        if expr in KEEP:
                            want = [float(_pyop(expr, v, float(k))) for v in xv]
                            if r.GetQuantity() != q or not all(abs(g - w) <= 1e-12 * max(abs(w), 1.0) for g, w in zip(got, want)):
                                part.violation(sig0 + ":" + expr + ":quantity or values changed", {"result": repr(r), "want": want})
                            continue
                        rq = r.GetQuantity()
                        if model.dimension(rq) != {t: -e for t, e in model.dimension(q).items()}:
                            part.violation(sig0 + ":" + expr + ":not the reciprocal dimension", {"result": repr(r)})
                            continue
                        for g, v in zip(got, xv):
                            want_base = float(k) / float(model.base_magnitude(q, v))
                            got_base = float(model.base_magnitude(rq, g))
                            if expr == "k/x":
                                ok = abs(got_base - want_base) <= 1e-12 * abs(want_base)
                            else:  # k//x: the floor of the quotient expressed in the units of the result
                                exact = float(model.base_magnitude(rq, 1.0))
                                ok = g == math.floor(g) and abs(g - math.floor(want_base / exact + 1e-9)) <= 1.0
                            if not ok:
                                part.violation(sig0 + ":" + expr + ":another amount", {"result": repr(r), "got_base": got_base, "k_over_x_in_base_units": want_base})
                                break
    return part


def _ladder_task(_):
    """(1) number / x for x = unit ** e over a ladder of exponents, one after the other on ONE database (what the
    division of one power leaves behind must not decide the next one), in both directions of the ladder;
    (2) long list / tuple containers (32, 40, 300 values) of python ints beyond the 64-bit range and of floats: the
    operation is applied to the values as given (python ints are exact)."""
    part = Part()
    with worlds.world("posc") as db:
        model = Model(db)
        for unit, cat in (("m", "length"), ("s", "time"), ("kg", "mass")):
            for exps in ((-1, -2, -3, 1, 2, 3), (3, 2, 1, -3, -2, -1), (-2, -1, 2, 1)):
                for cls in ("Scalar", "Array"):
                    done = []
                    for e in exps:
                        base = Scalar(2.0, unit, cat)
                        x = base
                        for _ in range(abs(e) - 1):
                            x = x * base
                        if e < 0:
                            x = 1.0 / x
                        if cls == "Array":
                            x = Array(x.GetQuantity(), [x.value, 2 * x.value])
                        done.append(e)
                        for expr in ("k/x", "k//x"):
                            part.count("evaluations")
                            part.count("ladder_steps")
                            sig = "C09:ladder:%s:%s:number over %s ** e for e = %s: %s" % (cls, unit, unit, done, expr)
                            try:
                                r = _apply(expr, x, 8.0)
                            except Exception as ex:
                                part.violation(sig + ":raised", {"error": repr(ex)})
                                continue
                            want = {t: -v for t, v in model.dimension(x.GetQuantity()).items()}
                            if model.dimension(r.GetQuantity()) != want:
                                part.violation(sig + ":not the reciprocal dimension", {"x": repr(x), "result": repr(r)})
        big = 3000000000
        for n in (32, 40, 300):
            for mk in (list, tuple):
                for vals, k in (([big + i for i in range(n)], 4000000000), ([1.5 + i for i in range(n)], 2.5), ([big + i for i in range(n)], 2.5)):
                    for expr in ("k*x", "x*k", "x+k", "k-x", "x-k", "x/k"):
                        part.count("evaluations")
                        part.count("long_container_operations")
                        x = Array(mk(vals), "m", "length")
                        sig = "C09:long %s of %d %s:%s with k=%r" % (mk.__name__, n, type(vals[0]).__name__ + "s", expr, k)
                        try:
                            r = _apply(expr, x, k)
                        except Exception as ex:
                            part.violation(sig + ":raised", {"error": repr(ex)})
                            continue
                        want = [_pyop(expr, v, k) for v in vals]
                        got = list(r.values)
                        if r.GetQuantity() != x.GetQuantity() or len(got) != n or any(g != w for g, w in zip(got, want)):
                            bad = [(g, w) for g, w in zip(got, want) if g != w][:2]
                            part.violation(sig + ":values are not the operation on the raw numbers", {"first_differences": repr(bad)})
    return part


def _task(task):
    kind, payload = task
    if kind == "ladder":
        return _ladder_task(payload)
    if kind == "mixed":
        return _mixed_task(payload)
    if kind == "pairs":
        return _pairs_task(payload)
    if kind == "direct":
        return _direct_task(payload)
    if kind == "numpykinds":
        return _numpykinds_task(payload)
    part = Part()
    with worlds.world("posc") as db:
        model = Model(db)
        if kind == "pool":
            depth, shard, nshards = payload
            pool = quantity_pool(db, depth)
            for qi, (qname, qexpr, q) in enumerate(pool):
                if qi % nshards != shard:
                    continue
                part.add("nontrivial", qname)
                for cls, ckind in SHAPES:
                    for n in ((1,) if cls == "Scalar" else (2, 3) if cls == "FixedArray" else (0, 1, 3)):
                        ks = list(SCALAR_K)
                        if cls != "Scalar":
                            ks += array_k(n)
                        # ONE operand object through all ten expressions, forwards and backwards (an answer must
                        # not depend on what the same object was used for before)
                        for kname, kf, kpy, ktol in [k for k in ks if k[0] in ("float 2.5", "np.float64 2.5", "int 2") or k[0].startswith("ndarray float len")]:
                            if ckind and ":" in ckind:
                                continue
                            xs = build(cls, ckind, q, VALUES[0], n)
                            xv = [VALUES[0][0]] if cls == "Scalar" else list(VALUES[0][:n])
                            done = []
                            for expr in EXPRS + EXPRS[::-1]:
                                part.count("evaluations")
                                done.append(expr)
                                sig = "C09:%s[%s,len %d]:%s:one operand object through %s:k=%s" % (cls, ckind, n, qname, " ; ".join(done), kname)
                                try:
                                    r = _apply(expr, xs, kf())
                                except ZeroDivisionError:
                                    continue
                                except Exception as e:
                                    part.violation(sig + ":raised", {"error": repr(e)})
                                    break
                                out = judge(part, model, db, sig, None, expr, xs, q, xv, kpy, ktol, r)
                                if out[0] != "ok":
                                    break
                        for vi, vals in enumerate(VALUES):
                            for kname, kf, kpy, ktol in ks:
                                for expr in EXPRS:
                                    if expr in ("x/k", "x//k") and not isinstance(kpy, list) and kpy == 0:
                                        continue  # division by zero is not in the property
                                    x = build(cls, ckind, q, vals, n)
                                    xvals = [vals[0]] if cls == "Scalar" else [float(t) for t in np.asarray(x.GetValues(), dtype=float)]
                                    if ckind and ":" in ckind:
                                        if isinstance(kpy, list) or kname.startswith("ndarray") or (ckind.endswith("int16") and kname.startswith(("np.int32", "np.int64"))):
                                            pass
                                        if ckind.endswith("float32") or ckind.endswith("int16"):
                                            ktol = max(ktol or 0.0, 1e-6 if ckind.endswith("float32") else 0.0)
                                        if expr in ("k/x", "k//x", "x/k", "x//k") and any(t == 0 for t in xvals):
                                            continue  # integer truncation produced a zero element
                                    sig = "C09:%s[%s,len %d]:%s:%s:k=%s:values %d" % (cls, ckind, n, qname, expr, kname, vi)
                                    snippet = lambda cls=cls, ckind=ckind, qexpr=qexpr, vals=vals, n=n, kname=kname, expr=expr: (  # noqa: E731
                                        "import numpy as np\nfrom mc import worlds\nfrom barril.units import *\nfrom barril.units import GetUnknownQuantity, ObtainQuantity, Quantity\n"
                                        "with worlds.world('posc'):\n    x = %s\n    k = %s\n    r = %s\n    print(type(r).__name__, repr(r))\n    assert type(r) is type(x), 'unit lost'\n"
                                        % (build_expr(cls, ckind, qexpr, vals, n), _kexpr(kname, n), expr)
                                    )
                                    part.count("evaluations")
                                    k = kf()
                                    try:
                                        r = _apply(expr, x, k)
                                    except ZeroDivisionError:
                                        part.count("zero_division")
                                        continue
                                    except Exception as e:
                                        part.violation(sig + ":raised", {"error": repr(e)}, snippet)
                                        part.add("outcomes", ("raised", type(e).__name__))
                                        continue
                                    part.add("outcomes", judge(part, model, db, sig, snippet, expr, x, q, xvals, kpy, ktol, r))
                                    part.add("ktypes", (cls, ckind, kname.split(" ")[0] + (kname.split(" ")[1] if kname.startswith("ndarray") else "")))
            if shard == 0:
                part.sample({"x": "Array.CreateWithQuantity(ObtainQuantity('m','length'), np.array([6., 9., 12.]))", "k": "np.float32(2.5)", "exprs": EXPRS})
                part.sample({"pool_size": len(pool), "shapes": SHAPES, "k": [k[0] for k in SCALAR_K] + [k[0] for k in array_k(3)]})
        else:  # every unit of the table
            qts = payload
            for qt in qts:
                for u in db.GetUnits(qt):
                    c = db.GetDefaultCategory(u)
                    if c is None:
                        continue
                    q = ObtainQuantity(u, c)
                    part.count("table_units")
                    for cls, ckind, n in (("Scalar", None, 1), ("Array", "list", 2), ("Array", "ndarray", 2), ("FixedArray", "tuple", 2)):
                        for kname, kf, kpy, ktol in (SCALAR_K[0], SCALAR_K[2], SCALAR_K[5], SCALAR_K[10]):
                            for expr in ("k*x", "x*k", "x+k", "k-x", "k/x", "k//x"):
                                vals = VALUES[0]
                                x = build(cls, ckind, q, vals, n)
                                xvals = [vals[0]] if cls == "Scalar" else list(vals[:n])
                                sig = "C09:table:%s[%s]:%s:%s:k=%s" % (cls, ckind, u, expr, kname)
                                snippet = (
                                    "import numpy as np\nfrom mc import worlds\nfrom barril.units import *\nfrom barril.units import ObtainQuantity\n"
                                    "with worlds.world('posc'):\n    x = %s\n    k = %s\n    r = %s\n    print(type(r).__name__, repr(r))\n    assert type(r) is type(x), 'unit lost'\n"
                                    % (build_expr(cls, ckind, "ObtainQuantity(%r, %r)" % (u, c), vals, n), _kexpr(kname, n), expr)
                                )
                                part.count("evaluations")
                                try:
                                    r = _apply(expr, x, kf())
                                except Exception as e:
                                    part.violation(sig + ":raised", {"error": repr(e)}, snippet)
                                    continue
                                try:
                                    part.add("outcomes", judge(part, model, db, sig, snippet, expr, x, q, xvals, kpy, ktol, r))
                                except Exception as e:  # e.g. a non-affine unit in the dims model
                                    part.count("table_units_not_judged")
    return part


MINI_POOL = [
    ("simple m/length", "ObtainQuantity('m', 'length')", lambda: ObtainQuantity("m", "length")),
    ("simple cm/length", "ObtainQuantity('cm', 'length')", lambda: ObtainQuantity("cm", "length")),
    ("affine degC", "ObtainQuantity('degC', 'temperature')", lambda: ObtainQuantity("degC", "temperature")),
    ("derived m/s", "(Scalar(1.0, 'm') / Scalar(1.0, 's')).GetQuantity()", lambda: (Scalar(1.0, "m") / Scalar(1.0, "s")).GetQuantity()),
    ("derived cm2", "(Scalar(1.0, 'cm') * Scalar(1.0, 'cm')).GetQuantity()", lambda: (Scalar(1.0, "cm") * Scalar(1.0, "cm")).GetQuantity()),
    ("derived 1/s", "(1.0 / Scalar(1.0, 's')).GetQuantity()", lambda: (1.0 / Scalar(1.0, "s")).GetQuantity()),
    ("empty", "Quantity.CreateEmpty()", lambda: Quantity.CreateEmpty()),
]
STEPS = [(cls, ckind, e) for cls, ckind in (("Scalar", None), ("Array", "list"), ("Array", "ndarray"), ("FixedArray", "tuple")) for e in EXPRS]


def _pairs_task(task):
    """Depth-2 histories on a FRESH database per history (nothing survives from an earlier history, not
    even state the library does not reset itself): every ordered pair of (shape, expression) steps on
    one quantity - an answer must not depend on which operation came first."""
    first_steps = task
    part = Part()
    kname, kf, kpy, ktol = SCALAR_K[2]
    for qname, qexpr, qf in MINI_POOL:
        for s1 in first_steps:
            for s2 in STEPS:
                db = worlds.mini("base")
                with worlds.installed(db):
                    model = Model(db)
                    q = qf()
                    for pos, (cls, ckind, expr) in enumerate((s1, s2)):
                        n = 1 if cls == "Scalar" else 2
                        x = build(cls, ckind, q, VALUES[0], n)
                        xvals = list(VALUES[0][:n])
                        part.count("evaluations")
                        sig = "C09:pair:%s: %s[%s] %s then %s[%s] %s (k=2.5): step %d" % (qname, s1[0], s1[1], s1[2], s2[0], s2[1], s2[2], pos + 1)
                        snippet = lambda s1=s1, s2=s2, qexpr=qexpr: (  # noqa: E731
                            "import numpy as np\nfrom mc import worlds\nfrom mc.ref.dims import Model\nfrom barril.units import *\nfrom barril.units import GetUnknownQuantity, ObtainQuantity, Quantity\n"
                            "db = worlds.mini('base')\nwith worlds.installed(db):\n    k = 2.5\n    x = %s\n    r1 = %s\n    x = %s\n    r2 = %s\n    print(repr(r1), repr(r2))\n"
                            "    m = Model(db)\n    assert m.dimension(r2.GetQuantity()) == %s\n"
                            % (build_expr(s1[0], s1[1], qexpr, VALUES[0], 1 if s1[0] == "Scalar" else 2), s1[2], build_expr(s2[0], s2[1], qexpr, VALUES[0], 1 if s2[0] == "Scalar" else 2), s2[2],
                               "m.dimension(x.GetQuantity())" if s2[2] in KEEP else "{t: -e for t, e in m.dimension(x.GetQuantity()).items()}")
                        )
                        try:
                            r = _apply(expr, x, kf())
                        except Exception as e:
                            part.violation(sig + ":raised", {"error": repr(e)}, snippet)
                            break
                        out = judge(part, model, db, sig, snippet, expr, x, q, xvals, kpy, ktol, r)
                        if out[0] != "ok":
                            break
                part.count("expression_pairs")
    return part


DIRECT = [("length", "m"), ("time", "s"), ("mass", "kg"), ("depth", "km"), ("temperature", "K"), ("time", "min"), ("length", "cm"), ("pressure", "Pa")]


def _direct_task(_):
    """Operands whose Quantity was built with the backwards-compatible constructor Quantity(category, unit):
    such quantities are NOT interned and die with their operand.  A long alternating sequence of short-lived
    operands (addresses get reused) through k/x, k//x, k*x, x/k on Scalar and Array."""
    part = Part()
    with worlds.world("posc") as db:
        model = Model(db)
        for rounds in range(40):
            for cat, unit in DIRECT:
                for cls, ckind in (("Scalar", None), ("Array", "list"), ("Array", "ndarray")):
                    for expr in ("k/x", "k*x", "k//x", "x/k"):
                        q = Quantity(cat, unit)
                        n = 1 if cls == "Scalar" else 2
                        x = build(cls, ckind, q, VALUES[0], n)
                        part.count("evaluations")
                        sig = "C09:uninterned operand Quantity(%r, %r):%s[%s] %s (round %d)" % (cat, unit, cls, ckind, expr, rounds)
                        try:
                            r = _apply(expr, x, 2.0)
                        except Exception as e:
                            part.violation(sig + ":raised", {"error": repr(e)})
                            continue
                        judge(part, model, db, sig, None, expr, x, q, list(VALUES[0][:n]), 2.0, None, r)
                        del x, r, q
        part.count("uninterned_operand_rounds", 40)
    return part


def _numpykinds_task(_):
    """(1) Chains of two number operations on one object: the first number is a narrow numpy scalar (float16 / float32 /
    int8 ...), the second an ordinary python float - what the first step stores as the value must not decide the
    precision or range of the second (300 * float16(2) * 200.0 is 120000, not inf).  (2) The number operand is an
    ndarray SUBCLASS with its own operator priority (numpy.ma.MaskedArray, one-dimensional): on either side the result
    is still x's class with the unit kept (reciprocal for k/x and k//x), values as for a plain ndarray operand."""
    import operator

    part = Part()
    ops2 = (("* 200.0", lambda r: r * 200.0, lambda v: v * 200.0), ("+ 0.1", lambda r: r + 0.1, lambda v: v + 0.1), ("200.0 * r", lambda r: 200.0 * r, lambda v: 200.0 * v), ("/ 0.001", lambda r: r / 0.001, lambda v: v / 0.001))
    first = (("x*k", operator.mul, False), ("k*x", operator.mul, True), ("x+k", operator.add, False), ("k+x", operator.add, True), ("x-k", operator.sub, False), ("x/k", operator.truediv, False))
    with worlds.world("posc"):
        for kname, kf, kpy, ktol in SCALAR_K:
            if not kname.startswith("np.") or kpy == 0:
                continue
            # (Scalar only: a Scalar holds a python float; the elements of a list / tuple / ndarray container follow numpy's
            # own promotion rules, so there the narrower type is the operation applied to the values as numpy defines it)
            for cls, mk in (("Scalar", lambda: Scalar(300.0, "m", "length")), ("Scalar(-7.5)", lambda: Scalar(-7.5, "m", "length"))):
                xv = [300.0] if cls == "Scalar" else [-7.5]
                for e1, f1, swap in first:
                    for e2, f2, g2 in ops2:
                        part.count("evaluations")
                        sig = "C09:chain:%s: (%s with k=%s) then %s" % (cls, e1, kname, e2)
                        snip = "import numpy as np\nfrom barril.units import *\nx = %s\nk = %s\nr = (%s)\nr2 = %s\nprint(repr(r), repr(r2))\n" % (
                            {"Scalar": "Scalar(300.0, 'm', 'length')", "Scalar(-7.5)": "Scalar(-7.5, 'm', 'length')"}[cls], _kexpr(kname, 2), e1, e2.replace("r", "r") if e2.startswith("200") else "r " + e2)
                        try:
                            x = mk()
                            r1 = f1(kf(), x) if swap else f1(x, kf())
                            r2 = f2(r1)
                            got = [r2.GetValue()]
                        except Exception as e:
                            part.violation(sig + ":raised", {"error": repr(e)}, snip)
                            continue
                        exp = [g2(f1(kpy, v) if swap else f1(v, kpy)) for v in xv]
                        tol = (ktol or 0.0) * 4 + 1e-12
                        bad = [(g, w) for g, w in zip(got, exp) if not (math.isfinite(float(g)) and abs(float(g) - w) <= tol * max(abs(w), 1.0))]
                        if bad or r2.GetUnit() != "m" or len(got) != len(exp):
                            part.violation(sig + ":value", {"got": [float(g) for g in got], "expected": exp, "unit": r2.GetUnit()}, snip)
                        part.add("ktypes", ("chain", kname, cls))
        # (2) ndarray subclass operands
        mvals = [2.0, 4.0]
        for label, mkk in (("MaskedArray", lambda: np.ma.MaskedArray(list(mvals))), ("MaskedArray with mask", lambda: np.ma.MaskedArray(list(mvals), mask=[False, False]))):
            for cls, mk in (("Array[list]", lambda: Array([6.0, 9.0], "m", "length")), ("Array[tuple]", lambda: Array((6.0, 9.0), "m", "length")), ("Array[ndarray]", lambda: Array(np.array([6.0, 9.0]), "m", "length")),
                            ("FixedArray[list]", lambda: FixedArray(2, "length", [6.0, 9.0], "m")), ("FixedArray[ndarray]", lambda: FixedArray(2, "length", np.array([6.0, 9.0]), "m"))):
                for e, f, swap, unit in (("k*x", operator.mul, True, "m"), ("x*k", operator.mul, False, "m"), ("k+x", operator.add, True, "m"), ("x+k", operator.add, False, "m"), ("k-x", operator.sub, True, "m"), ("x-k", operator.sub, False, "m"),
                                         ("k/x", operator.truediv, True, "1/m"), ("x/k", operator.truediv, False, "m"), ("k//x", operator.floordiv, True, "1/m")):
                    part.count("evaluations")
                    sig = "C09:ndarray-subclass operand:%s:%s with k=%s" % (cls, e, label)
                    snip = "import numpy as np\nfrom barril.units import *\nk = np.ma.MaskedArray([2.0, 4.0]%s)\nx = %s\nr = %s\nprint(type(r), r)\nassert isinstance(r, type(x)) and r.GetUnit() == %r\n" % (
                        ", mask=[False, False]" if "mask" in label else "", {"Array[list]": "Array([6.0, 9.0], 'm', 'length')", "Array[tuple]": "Array((6.0, 9.0), 'm', 'length')", "Array[ndarray]": "Array(np.array([6.0, 9.0]), 'm', 'length')",
                                                                        "FixedArray[list]": "FixedArray(2, 'length', [6.0, 9.0], 'm')", "FixedArray[ndarray]": "FixedArray(2, 'length', np.array([6.0, 9.0]), 'm')"}[cls], e, unit)
                    try:
                        x = mk()
                        r = f(mkk(), x) if swap else f(x, mkk())
                    except Exception as ex:
                        part.violation(sig + ":raised", {"error": repr(ex)}, snip)
                        continue
                    if not isinstance(r, type(x)):
                        part.violation(sig + ":unit lost", {"result_type": type(r).__name__, "result": repr(r)}, snip)
                        continue
                    exp = [f(a, b) if swap else f(b, a) for a, b in zip(mvals, [6.0, 9.0])]
                    got = [float(t) for t in np.asarray(r.GetValues(), dtype=float)]
                    if r.GetUnit() != unit or got != exp:
                        part.violation(sig + ":result", {"unit": r.GetUnit(), "expected_unit": unit, "values": got, "expected": exp}, snip)
                    part.add("ktypes", ("subclass", label, cls))
    return part


def _kexpr(kname, n):
    if kname.startswith("ndarray 0-d float"):
        return "np.array(2.5)"
    if kname.startswith("ndarray 0-d int"):
        return "np.array(2)"
    if kname.startswith("ndarray float"):
        return "np.array(%r)" % ([2.5, -0.5, 4.0, 8.0][:n],)
    if kname.startswith("ndarray int"):
        return "np.array(%r)" % ([2, -3, 4, 5][:n],)
    t, v = kname.split(" ")
    if t in ("int", "float", "bool"):
        return v
    return "%s(%s)" % (t, v)


def run(ctx):
    depth = 3 if ctx.thorough else 2
    n = 32 if ctx.thorough else 16
    tasks = [("pool", (depth, i, n)) for i in range(n)]
    tasks += [("pairs", STEPS[i::8]) for i in range(8)]
    tasks += [("direct", None), ("mixed", None), ("ladder", None), ("numpykinds", None)]
    if ctx.thorough:
        with worlds.world("posc") as db:
            qts = sorted(db.GetQuantityTypes(), key=lambda q: -len(db.GetUnits(q)))
        tasks += [("table", qts[i::32]) for i in range(32)]
    run_sharded(ctx, _task, tasks)
    c = ctx.part.counters
    ctx.level = "exploration"
    ctx.rule = (
        "complete product: quantity pool (simple, second category, affine, empty, unknown + every ordered composing map of the depth-%d derived-quantity graph) x 11 value-object shapes "
        "(Scalar, Array/FixedArray over list/tuple/ndarray incl. int16/int32/int64/float32 ndarrays, lengths 0,1,3 / 2,3) x 22 scalar numbers (13 python/numpy types; values incl. 0, -0.0, +-1) (+4 ndarray kinds for containers) x 10 expressions x 2 value assignments%s; "
        "+ every ordered pair of 40 (shape, expression) steps on 7 quantities, each pair on a FRESH hand-registered database (depth-2 histories); + chains (narrow numpy number, then a python float: 10 numpy scalars x 2 Scalars x 6 x 4 expressions) and numpy.ma.MaskedArray operands (5 shapes x 9 expressions); non-trivial/distinct = distinct quantities in the pool; outcomes = distinct verdict keys" % (depth, "; plus every unit of the table x 4 shapes x 4 k x 6 expressions" if ctx.thorough else "")
    )
    ctx.coverage_extra = {"k_type_shape_combinations": len(ctx.part.sets.get("ktypes", ())), "table_units": c.get("table_units", 0), "zero_division_skipped": c.get("zero_division", 0), "expression_pairs": c.get("expression_pairs", 0)}
    ctx.assumptions = [
        "Scalar with an ndarray operand is outside the alphabet (the code has no branch for it; the property's ndarray clause concerns containers)",
        "k is compared as an exact python number; float32/float16 operands are compared at their own precision",
        "one-dimensional containers",
    ]
