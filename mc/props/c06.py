"""
C06  Named compound units agree with the composition of their parts.

Every row of the shipped table is visited.  A row symbol is parsed with the table's own grammar
(numerator.factors / denominator.factors, integer exponents, numeric multipliers); tokens that are
registered symbols are atoms, `atom + digits` is a power, a leading integer is a multiplier; the
row's own whole symbol is additionally read as atom**n / n x atom.  Atomic rows that are an SI
prefix + another row's symbol AND whose registered name is the prefix word + that row's name are
checked against 10**k.  Factors are exact rationals built from the written literals.
"""
import re
from fractions import Fraction as F

from barril.units import Scalar

from .. import worlds
from ..ref import dims
from ..runner import Part

PFX = {
    "E": (18, ("exa",)),
    "P": (15, ("peta",)),
    "T": (12, ("tera",)),
    "G": (9, ("giga",)),
    "M": (6, ("mega",)),
    "k": (3, ("kilo",)),
    "h": (2, ("hecto",)),
    "da": (1, ("deka", "deca")),
    "d": (-1, ("deci",)),
    "c": (-2, ("centi",)),
    "m": (-3, ("milli",)),
    "u": (-6, ("micro",)),
    "n": (-9, ("nano",)),
    "p": (-12, ("pico",)),
    "f": (-15, ("femto",)),
    "a": (-18, ("atto",)),
}


def _norm_name(name):
    """registered unit names compared without spaces/hyphens, plural s, and the -re/-er spelling (metres = meter)"""
    n = re.sub(r"[ -]", "", name.lower())
    n = n.replace("metre", "meter").replace("litre", "liter")
    return n[:-1] if n.endswith("s") else n


def split_outside(s, sep):
    out, cur, d = [], "", 0
    for ch in s:
        if ch == "(":
            d += 1
        elif ch == ")":
            d -= 1
        if d == 0 and ch == sep:
            out.append(cur)
            cur = ""
        else:
            cur += ch
    out.append(cur)
    return out


def significant_digits(x):
    r = repr(float(x))
    m = re.match(r"^-?(\d*)\.?(\d*)(?:e[-+]?\d+)?$", r)
    digits = (m.group(1) + m.group(2)).lstrip("0")
    if "." in r.split("e")[0]:
        pass
    else:
        digits = digits.rstrip("0")
    if m.group(2) == "0":
        digits = m.group(1).lstrip("0").rstrip("0")
    return len(digits)


def half_rel(x):
    """Relative half unit in the last written digit of a literal; literals with fewer than four
    significant digits (powers of ten, 60, 2.54, 0.5 ...) are conventional exact factors."""
    if x == 0 or float(x) == int(x) or significant_digits(x) < 4:
        return F(0)
    r = repr(float(x))
    m = re.match(r"^-?(\d*)\.?(\d*)(?:e([-+]?\d+))?$", r)
    dec, e = len(m.group(2)), int(m.group(3) or 0)
    return F(1, 2) * F(10) ** (e - dec) / abs(dims.frac(x))


class Table:
    def __init__(self, db):
        self.db = db
        self.model = dims.Model(db)
        self.syms = set(db.unit_to_unit_info)

    def unit_rel(self, u):
        tb = self.db.unit_to_unit_info[u].tobase
        if not getattr(tb, "__has_conversion__", True):
            return F(0)
        if not hasattr(tb, "__b__") or not hasattr(tb, "__c__"):
            # no written literals on the closure: read the precision off the factor it computes
            try:
                return max(half_rel(float(tb(1.0)) - float(tb(0.0))), F(1, 1000))  # (a quotient b/c hides how b was written: only gross disagreements are judged)
            except Exception:
                return F(1, 10**9)
        return half_rel(tb.__b__) + half_rel(tb.__c__)

    def resolve(self, tok, own=False, den=False):
        """token -> (multiplier, atom, exponent) or None.  own=True: the row's own whole symbol,
        which may not be taken as itself."""
        if not own and tok in self.syms:
            return (F(1), tok, 1)
        m = re.match(r"^(.*?)(\d+)$", tok)
        if m and m.group(1) in self.syms:
            return (F(1), m.group(1), int(m.group(2)))
        m = re.match(r"^(\d+)(.+)$", tok)
        if m:
            r = self.resolve(m.group(2))
            if r:
                return (F(int(m.group(1))) * r[0], r[1], r[2])
        # "ft(100)", "m(30)", "galUK(1000)": N of that unit (the table's spelling of "per 100 ft")
        m = re.match(r"^(.+)\((\d+)\)$", tok) if den else None  # (in a numerator a parenthesised number is a year or a temperature: ftInd(37))
        if m:
            r = self.resolve(m.group(1))
            if r:
                return (F(int(m.group(2))) * r[0], r[1], r[2])
        return None

    def decompose(self, s):
        """-> list of ((mult, atom, exp), sign) or None when the grammar does not decompose the row."""
        if re.search(r"[\^*<> ]", s):
            return None
        parts = split_outside(s, "/")
        if len(parts) > 2:
            return None
        num, den = parts[0], (parts[1] if len(parts) == 2 else None)
        toks = []
        if not (num == "1" and den is not None):
            toks += [(t, 1) for t in split_outside(num, ".")]
        if den is not None:
            toks += [(t, -1) for t in split_outside(den, ".")]
        own = len(toks) == 1 and toks[0][1] == 1
        res = []
        for t, sg in toks:
            r = self.resolve(t, own=own, den=sg < 0)
            if r is None:
                return None
            res.append((r, sg))
        return res or None

    def prefixed(self, s):
        """-> (exponent of ten, base row) for atomic rows named as an SI-prefixed form of another row."""
        if re.search(r"[\d./()^* ]", s):
            return None
        info = self.db.unit_to_unit_info[s]
        for p, (e, words) in PFX.items():
            o = s[len(p) :]
            if s.startswith(p) and o in self.syms:
                oi = self.db.unit_to_unit_info[o]
                if oi.quantity_type != info.quantity_type:
                    continue
                n, on = _norm_name(info.name), _norm_name(oi.name)
                if any(n == w + on for w in words):
                    return (e, o)
        return None


def slope_by_conversion(db, u):
    """slope of the unit's to-base conversion through the implementation's own Convert."""
    qt = db.GetQuantityType(u)
    b = db.GetBaseUnit(qt)
    s1 = Scalar(1.0, u, None) if db.GetDefaultCategory(u) else None
    if s1 is not None:
        return s1.GetValue(b) - Scalar(0.0, u).GetValue(b)
    return db.Convert(qt, u, b, 1.0) - db.Convert(qt, u, b, 0.0)


def _compose(dec, unit_of):
    """The amount  prod (mult x 1 unit ** exp) ** sign  built with real Scalar arithmetic."""
    res = None
    for (mult, atom, exp), sg in dec:
        x = Scalar(1.0, unit_of(atom))
        if exp != 1:
            x = x**exp
        if mult != 1:
            x = float(mult) * x
        if res is None:
            res = x if sg > 0 else 1.0 / x
        else:
            res = res * x if sg > 0 else res / x
    return res


def _by_scalar_arithmetic(part, db, t):
    """The property's second wording, on the real operators: for every decomposable row (scale-only parts) the
    amount composed by multiplying and dividing Scalars of 1 <part>, measured against the same expression written
    in the parts' base units, is the product of the parts' factors.  All rows one after the other on ONE database,
    in table order and then in reverse order (what an earlier row left behind must not change a later one)."""
    rows = []
    for s in sorted(t.syms):
        dec = t.decompose(s)
        if dec is None:
            continue
        ok = True
        for (mult, atom, exp), sg in dec:
            qt = db.GetQuantityType(atom)
            if not db.GetDefaultCategory(atom) or db.Convert(qt, atom, db.GetBaseUnit(qt), 0.0) != 0 or db.Convert(qt, db.GetBaseUnit(qt), atom, 0.0) != 0:
                ok = False
        if ok:
            rows.append((s, dec))
    base_of = lambda u: db.GetBaseUnit(db.GetQuantityType(u))
    for order, seq in (("table order", rows), ("reverse table order", rows[::-1])):
        for s, dec in seq:
            part.count("evaluations")
            part.count("rows_by_scalar_arithmetic")
            want = 1.0
            for (mult, atom, exp), sg in dec:
                want *= (slope_by_conversion(db, atom) ** exp) ** sg
            text = " ".join("%s%s^%d" % ("" if mult == 1 else "%sx" % mult, atom, exp * sg) for (mult, atom, exp), sg in dec)
            sig = "C06:row %s = %s composed with Scalar arithmetic (%s)" % (s, text, order)
            try:
                ratio = _compose(dec, lambda u: u) / _compose(dec, base_of)
                got, unit = ratio.GetValue(), ratio.GetUnit()
            except Exception as e:
                part.violation(sig + ":raised", {"error": repr(e)})
                continue
            if unit != "" or not abs(got - want) <= 1e-9 * abs(want):
                part.violation(sig + ":is not the product of the parts' factors", {"composed_over_base_units": got, "unit_of_the_quotient": unit, "product_of_the_parts_factors": want},
                               "from mc import worlds\nwith worlds.world('posc') as db:\n    import mc.props.c06 as c06\n    t = c06.Table(db)\n    from mc.runner import Part\n    p = Part()\n    c06._by_scalar_arithmetic(p, db, t)\n"
                               "    for v in p.violations:\n        print(v['signature'], v['detail'])\n    assert not p.violations\n")


def run(ctx):
    part = ctx.part
    with worlds.world("posc") as db:
        t = Table(db)
        m = t.model
        rows = 0
        skipped = 0
        for s in sorted(t.syms):
            rows += 1
            part.count("evaluations")
            dec = t.decompose(s)
            pre = t.prefixed(s)
            if dec is None and pre is None:
                skipped += 1
                continue
            try:
                f = m.factor(s)
            except dims.NotAffine:
                skipped += 1
                continue
            if dec is not None:
                part.count("decomposed_rows")
                p = F(1)
                bound = t.unit_rel(s)
                for (mult, atom, exp), sg in dec:
                    p *= (mult * m.factor(atom) ** exp) ** sg
                    bound += abs(exp) * t.unit_rel(atom)
                tol = max(2 * bound, F(1, 10**12))
                rel = abs(f - p) / abs(p)
                text = " ".join("%s%s^%d" % ("" if mult == 1 else "%sx" % mult, atom, exp * sg) for (mult, atom, exp), sg in dec)
                part.add("nontrivial", s)
                part.add("outcomes", len(dec))
                # the "equivalently" clause on the implementation's own conversions
                real_row = slope_by_conversion(db, s)
                real_parts = 1.0
                for (mult, atom, exp), sg in dec:
                    real_parts *= (float(mult) * slope_by_conversion(db, atom) ** exp) ** sg
                part.count("evaluations")
                rel_real = abs(real_row - real_parts) / abs(real_parts)
                if rel > tol or rel_real > float(tol) + 1e-12:
                    part.violation(
                        "C06:row %s = %s : factor=%.12g" % (s, text, float(f)),
                        {"row_factor": float(f), "composition_of_parts": float(p), "relative_error": float(rel), "tolerance_from_written_precision": float(tol), "by_real_conversions": [real_row, real_parts]},
                        "from mc import worlds\nfrom barril.units import Scalar\nwith worlds.world('posc') as db:\n    import mc.props.c06 as c06\n    t = c06.Table(db)\n"
                        "    row = c06.slope_by_conversion(db, %r)\n    parts = 1.0\n    for (mult, atom, exp), sg in t.decompose(%r):\n        parts *= (float(mult) * c06.slope_by_conversion(db, atom) ** exp) ** sg\n"
                        "    print('row', row, 'composition', parts)\n    assert abs(row - parts) <= %r * abs(parts), (row, parts)\n" % (s, s, float(tol) + 1e-12),
                    )
                # rows that are a POWER of one part (m3, ft2, 1/ft2, cm2 ..., and the plain reciprocals 1/ft, 1/bbl ...): the part raised through the
                # exponent-list conversion, asked with +n, then -n, then +n again, agrees with the row
                if len(dec) == 1 and dec[0][0][0] == 1 and dec[0][0][2] * dec[0][1] != 1 and rel <= tol:
                    (_mult, atom, exp), sg = dec[0]
                    aq = db.GetQuantityType(atom)
                    ab = db.GetBaseUnit(aq)
                    if db.Convert(aq, atom, ab, 0.0) == 0:
                        for ne in (exp * sg, -exp * sg, exp * sg):
                            part.count("evaluations")
                            try:
                                g = db.Convert(aq, [(atom, ne)], [(ab, ne)], 1.0)
                            except Exception as ex:
                                g = repr(ex)
                            want = real_row if ne == exp * sg else 1.0 / real_row
                            if not (isinstance(g, float) and abs(g - want) <= (float(tol) + 1e-11) * abs(want)):
                                part.violation("C06:row %s vs its part through the exponent-list conversion: db.Convert(%r, [(%r, %d)], [(%r, %d)], 1.0)" % (s, aq, atom, ne, ab, ne), {"got": g, "row_says": want},
                                               "from mc import worlds\nwith worlds.world('posc') as db:\n    a = db.Convert(%r, [(%r, %d)], [(%r, %d)], 1.0)\n    b = db.Convert(%r, [(%r, %d)], [(%r, %d)], 1.0)\n    print(a, b)\n    assert abs(a * b - 1.0) <= 1e-9\n" % (aq, atom, exp * sg, ab, exp * sg, aq, atom, -exp * sg, ab, -exp * sg))
                                break
                        part.count("power_rows")
                if len(part.samples) < 4 and len(dec) >= 2:
                    part.sample({"row": s, "decomposition": text, "row_factor": float(f), "composition": float(p), "tolerance": float(tol)})
            if pre is not None:
                e, o = pre
                part.count("prefixed_rows")
                part.add("nontrivial", s)
                p = F(10) ** e * m.factor(o)
                tol = max(2 * (t.unit_rel(s) + t.unit_rel(o)), F(1, 10**12))
                rel = abs(f - p) / abs(p)
                if rel > tol:
                    part.violation(
                        "C06:prefixed %s = 1e%d x %s : factor=%.12g" % (s, e, o, float(f)),
                        {"row": s, "name": db.unit_to_unit_info[s].name, "row_factor": float(f), "prefix_times_base_row": float(p), "relative_error": float(rel)},
                        "from mc import worlds\nwith worlds.world('posc') as db:\n    import mc.props.c06 as c06\n    a, b = c06.slope_by_conversion(db, %r), 1e%d * c06.slope_by_conversion(db, %r)\n    print(a, b)\n    assert abs(a - b) <= %r * abs(b)\n" % (s, e, o, float(tol) + 1e-12),
                    )
        _by_scalar_arithmetic(part, db, t)
        if rows != len(db.unit_to_unit_info):
            part.notes.append("visited %d rows of %d" % (rows, len(db.unit_to_unit_info)))
    ctx.level = "exploration"
    ctx.rule = (
        "every row of the table; non-trivial = distinct rows that the grammar decomposes into registered units or that are named SI-prefixed forms; "
        "tolerance = 2 x sum of |exp| x half a unit in the last written digit of every literal with >= 4 significant digits (never below 1e-12); outcomes = number of factors"
    )
    ctx.states = rows
    ctx.transitions = part.counters.get("evaluations", 0)
    ctx.coverage_extra = {
        "rows": rows,
        "decomposed_rows": part.counters.get("decomposed_rows", 0),
        "prefixed_rows": part.counters.get("prefixed_rows", 0),
        "rows_not_decomposable_by_the_grammar": skipped,
        "power_rows_through_exponent_lists": part.counters.get("power_rows", 0),
        "rows_composed_with_scalar_arithmetic_in_two_orders": part.counters.get("rows_by_scalar_arithmetic", 0),
    }
    ctx.assumptions = [
        "rows the grammar cannot decompose (parentheses groups, '^', '*', spaces, double slashes, '<...>') are not judged",
        "literals with fewer than four significant digits are taken as exact conventional factors; rows with an affine component are compared on slopes",
        "a known finding is keyed by (row, decomposition, observed factor): a different wrong value of the same row is reported again",
    ]
