"""
C04  Multiply / divide: dimension exponents add, base-unit magnitudes multiply.

Explicit-state search over the algebra of derived quantities (mc/algebra.py): every transition of
the state graph and every ordered pair of states is executed with the real operators and judged
by the independent dims model.  quick: depth-3 graph transitions + all ordered pairs of depth-2
states (Scalar, Array list/ndarray, Quantity); thorough: all ordered pairs of depth-3 states and a
second (negative / fractional) value assignment.
"""
import math
from fractions import Fraction as F

import numpy as np

from barril.units import Array, Scalar

from .. import algebra, worlds
from ..par import chunks, run_sharded
from ..ref.dims import Model, close
from ..runner import Part

TOL = 1e-12
_G = {}


def _snip(a, b, op, values):
    return (
        "from mc import worlds\nfrom mc.ref.dims import Model\nfrom barril.units import Scalar\n"
        "with worlds.world('posc') as db:\n"
        "    a = %s\n    b = %s\n    r = %s\n    m = Model(db)\n"
        "    ea, eb = m.base_magnitude(a.GetQuantity(), a.value), m.base_magnitude(b.GetQuantity(), b.value)\n"
        "    got = m.base_magnitude(r.GetQuantity(), r.value)\n"
        "    print(a, b, '->', r, m.dimension(r.GetQuantity()))\n"
        "    exp = %s\n"
        "    assert abs(float(got) - float(exp)) <= 1e-12 * abs(float(exp)), (float(got), float(exp))\n"
        % (
            algebra.expr(a.history, values=values),
            algebra.expr(b.history, values=values),
            {"*": "a * b", "/": "a / b", "back": "(a * b) / b"}[op],
            {"*": "ea * eb", "/": "ea / eb", "back": "ea"}[op],
        )
    )


def _dim_op(da, db_, sign):
    d = dict(da)
    for k, v in db_.items():
        d[k] = d.get(k, 0) + sign * v
    return {k: v for k, v in d.items() if v}


def _judge(part, model, sig, r, exp_dim, exp_mag, detail, snippet=None, cls=Scalar):
    """r: resulting Scalar; returns True when fine."""
    part.count("evaluations")
    if not isinstance(r, cls):
        part.violation(sig + ":type", dict(detail, got=type(r).__name__), snippet)
        return False
    q = r.GetQuantity()
    k = algebra.key_of(q)
    if any(e == 0 for _c, _u, e in k):
        part.violation(sig + ":zero-exponent", dict(detail, composing=k), snippet)
        return False
    dim = model.dimension(q)
    if dim != exp_dim:
        part.violation(sig + ":dimension", dict(detail, got=dim, expected=exp_dim, composing=k), snippet)
        return False
    # no quantity type may linger with cancelling exponents
    qts = {}
    for c, _u, e in k:
        qt = model.db.GetCategoryQuantityType(c)
        qts[qt] = qts.get(qt, 0) + e
    if any(v == 0 for v in qts.values()):
        part.violation(sig + ":cancelled-type-kept", dict(detail, composing=k), snippet)
        return False
    got = model.base_magnitude(q, r.value)
    if not close(got, exp_mag, abs(exp_mag), TOL):
        part.violation(
            sig + ":magnitude",
            dict(detail, got_base=float(got), expected_base=float(exp_mag), result=repr(r)),
            snippet,
        )
        return False
    return True


MIXED = [
    ("{length: m, depth: cm}", [("length", ["m", 1]), ("depth", ["cm", 1])]),
    ("{length: km, depth: m, time: s^-1}", [("length", ["km", 1]), ("depth", ["m", 1]), ("time", ["s", -1])]),
    ("{mass: g, length: cm^2, depth: m^-1}", [("mass", ["g", 1]), ("length", ["cm", 2]), ("depth", ["m", -1])]),
]


def _mixed_units(part, db):
    """Operands whose quantity holds TWO units of one quantity type under two categories.  Arithmetic never
    produces such a quantity (it unifies the units); it has to be obtained directly - and must then obey
    the same algebra: a**n is the n-fold product, a*b ~ b*a, (a*b)/b ~ a, a/a is dimensionless."""
    from collections import OrderedDict

    from barril.units import Quantity

    model = Model(db)
    atoms = [Scalar(algebra.PRIMES[i], u, c) for i, (c, u) in enumerate(algebra.BASIS)]
    for name, entries in MIXED:
        mk = lambda: Scalar(Quantity.CreateDerived(OrderedDict((c, list(ue)) for c, ue in entries)), 60.0)  # noqa: E731
        a = mk()
        da = model.dimension(a.GetQuantity())
        ma = model.base_magnitude(a.GetQuantity(), a.value)
        sn = "from collections import OrderedDict\nfrom mc import worlds\nfrom mc.ref.dims import Model\nfrom barril.units import *\nfrom barril.units import Quantity\nwith worlds.world('posc') as db:\n    a = Scalar(Quantity.CreateDerived(OrderedDict(%r)), 60.0)\n    m = Model(db)\n    r = %%s\n    print(a, r, float(m.base_magnitude(r.GetQuantity(), r.value)))\n    assert abs(float(m.base_magnitude(r.GetQuantity(), r.value)) - %%r) <= 1e-12 * abs(%%r)\n" % (entries,)
        for n in (1, 2, 3):
            exp_dim = {k: v * n for k, v in da.items()}
            try:
                r = mk() ** n
            except Exception as e:
                part.violation("C04:mixed-units:%s ** %d:raised" % (name, n), {"error": repr(e)})
                continue
            _judge(part, model, "C04:mixed-units:%s ** %d" % (name, n), r, exp_dim, ma**n, {"a": repr(a)}, sn % ("a ** %d" % n, float(ma**n), float(ma**n)))
        for label, f, dim, mag in (
            ("a * a", lambda: mk() * mk(), {k: 2 * v for k, v in da.items()}, ma * ma),
            ("a / a", lambda: mk() / mk(), {}, F(1)),
            ("(a * a) / a", lambda: (mk() * mk()) / mk(), da, ma),
        ):
            try:
                r = f()
            except Exception as e:
                part.violation("C04:mixed-units:%s: %s:raised" % (name, label), {"error": repr(e)})
                continue
            _judge(part, model, "C04:mixed-units:%s: %s" % (name, label), r, dim, mag, {"a": repr(a)}, sn % (label, float(mag), float(mag)))
        for b in atoms:
            db_ = model.dimension(b.GetQuantity())
            mb = model.base_magnitude(b.GetQuantity(), b.value)
            for label, f, dim, mag in (
                ("a * b", lambda: mk() * b, _dim_op(da, db_, 1), ma * mb),
                ("b * a", lambda: b * mk(), _dim_op(da, db_, 1), ma * mb),
                ("a / b", lambda: mk() / b, _dim_op(da, db_, -1), ma / mb),
                ("b / a", lambda: b / mk(), _dim_op(db_, da, -1), mb / ma),
                ("(a * b) / b", lambda: (mk() * b) / b, da, ma),
            ):
                try:
                    r = f()
                except Exception as e:
                    part.violation("C04:mixed-units:%s: %s with b = %r:raised" % (name, label, b), {"error": repr(e)})
                    continue
                _judge(part, model, "C04:mixed-units:%s: %s with b = %r" % (name, label, b), r, dim, mag, {"a": repr(a), "b": repr(b)})
        part.count("mixed_unit_operands")


def _pairs_task(task):
    idx, values_name = task
    states = _G[values_name]
    values = algebra.PRIMES if values_name == "v1" else algebra.PRIMES2
    part = Part()
    with worlds.world("posc") as db:
        model = Model(db)
        for ia in idx:
            a = states[ia]
            sa = algebra.replay(a.history, algebra.BASIS, values)
            qa = sa.GetQuantity()
            ma = model.base_magnitude(qa, sa.value)
            da = model.dimension(qa)
            # powers
            for n in (1, 2, 3):
                sig = "C04:pow%d:%s" % (n, algebra.describe(a.history, values=values))
                try:
                    r = sa**n
                except Exception as e:
                    part.violation(sig + ":raised", {"error": repr(e)})
                    continue
                _judge(part, model, sig, r, {k: v * n for k, v in da.items()}, ma**n, {"a": repr(sa)})
                try:
                    qn = qa**n
                    if qn != r.GetQuantity():
                        part.violation(sig + ":quantity-pow", {"quantity": repr(qn), "scalar_quantity": repr(r.GetQuantity())})
                except Exception as e:
                    part.violation(sig + ":quantity-pow-raised", {"error": repr(e)})
            # a / a
            sig = "C04:self-div:%s" % algebra.describe(a.history, values=values)
            try:
                r = sa / sa
                part.count("evaluations")
                if algebra.key_of(r.GetQuantity()) != () or r.value != 1.0:
                    part.violation(sig, {"result": repr(r), "composing": algebra.key_of(r.GetQuantity())})
            except Exception as e:
                part.violation(sig + ":raised", {"error": repr(e)})
            for b in states:
                sb = algebra.replay(b.history, algebra.BASIS, values)
                qb = sb.GetQuantity()
                mb = model.base_magnitude(qb, sb.value)
                db_ = model.dimension(qb)
                names = "%s || %s" % (algebra.describe(a.history, values=values), algebra.describe(b.history, values=values))
                detail = {"a": repr(sa), "b": repr(sb)}
                part.count("pairs")
                try:
                    prod = sa * sb
                    ok = _judge(part, model, "C04:mul:" + names, prod, _dim_op(da, db_, 1), ma * mb, detail, _snip(a, b, "*", values))
                    if len(algebra.key_of(prod.GetQuantity())) >= 2:
                        part.count("nontrivial")
                    part.add("outcomes", prod.GetUnit())
                    quo = sa / sb
                    ok = _judge(part, model, "C04:div:" + names, quo, _dim_op(da, db_, -1), ma / mb, detail, _snip(a, b, "/", values)) and ok
                    back = prod / sb
                    _judge(part, model, "C04:mul-then-div:" + names, back, da, ma, detail, _snip(a, b, "back", values))
                    # floor division
                    fl = sa // sb
                    part.count("evaluations")
                    qf = fl.GetQuantity()
                    if model.dimension(qf) != _dim_op(da, db_, -1):
                        part.violation("C04:floordiv:" + names + ":dimension", dict(detail, got=model.dimension(qf)))
                    else:
                        exact = (ma / mb) / model.scale(qf)  # the quotient expressed in the result's units
                        fe = float(exact)
                        # "up to flooring": the value is floor(q') for some q' within tolerance of
                        # the exact quotient (no verdict hangs on the last bit of a near-integer)
                        eps = 1e-12 * abs(fe) + 1e-300
                        if not (fl.value == math.floor(fl.value) and math.floor(fe - eps) <= fl.value <= math.floor(fe + eps)):
                            part.violation("C04:floordiv:" + names + ":value", dict(detail, got=fl.value, exact_quotient=fe))
                    # Quantity operators agree with the Scalar results
                    part.count("evaluations", 2)
                    if (qa * qb) != prod.GetQuantity():
                        part.violation("C04:quantity-mul:" + names, dict(detail, quantity=repr(qa * qb), scalar_quantity=repr(prod.GetQuantity())))
                    if (qa / qb) != quo.GetQuantity():
                        part.violation("C04:quantity-div:" + names, dict(detail, quantity=repr(qa / qb), scalar_quantity=repr(quo.GetQuantity())))
                    # Arrays, element by element (list and ndarray)
                    for kind in ("list", "ndarray", "ndarray*tuple", "list*ndarray"):
                        va = [sa.value, 2.0 * sa.value]
                        vb = [sb.value, -3.0 * sb.value]
                        if kind == "ndarray":
                            va, vb = np.array(va), np.array(vb)
                        elif kind == "ndarray*tuple":  # (mixed kinds: the python container goes through the database as a whole)
                            va, vb = np.array(va), tuple(vb)
                        elif kind == "list*ndarray":
                            vb = np.array(vb)
                        for opn, exp_dim, factor in (("*", _dim_op(da, db_, 1), None), ("/", _dim_op(da, db_, -1), None)):
                            ar = (Array(qa, va) * Array(qb, vb)) if opn == "*" else (Array(qa, va) / Array(qb, vb))
                            part.count("evaluations")
                            ref = prod if opn == "*" else quo
                            if ar.GetQuantity() != ref.GetQuantity():
                                part.violation("C04:array-%s-%s:%s:quantity" % (opn, kind, names), dict(detail, array_quantity=repr(ar.GetQuantity()), scalar_quantity=repr(ref.GetQuantity())))
                                continue
                            e0 = ref.value
                            e1 = ref.value * (2.0 * -3.0 if opn == "*" else 2.0 / -3.0)
                            vals = list(ar.values)
                            if len(vals) != 2 or not close(vals[0], e0, abs(e0), TOL) or not close(vals[1], e1, abs(e1), 1e-11):
                                part.violation("C04:array-%s-%s:%s:values" % (opn, kind, names), dict(detail, got=[float(v) for v in vals], expected=[e0, e1]))
                except Exception as e:
                    part.violation("C04:raised:" + names, dict(detail, error=repr(e)), _snip(a, b, "*", values))
            if ia % 37 == 0:
                part.sample({"a": algebra.describe(a.history, values=values), "ops": "a*b b*a a/b a//b (a*b)/b a/a a**n for every state b"}, cap=2)
    return part


def run(ctx):
    depth_pairs = 3 if (ctx.thorough and not worlds.WARM) else 2  # (the warm pass of the thorough tier repeats the quick-sized pair space)
    depth_graph = 4 if ctx.thorough else 3
    with worlds.world("posc") as db:
        model = Model(db)
        part = ctx.part

        def on_transition(parent, op, i, res, h):
            sig = "C04:transition:%s" % algebra.describe(h)
            if isinstance(res, Exception):
                part.violation(sig + ":raised", {"error": repr(res)})
                return
            exp_dim = algebra.model_dimension(db, h, algebra.BASIS)
            exp_mag = algebra.model_magnitude(model, h, algebra.BASIS, algebra.PRIMES)
            snippet = (
                "from mc import worlds\nfrom mc.ref.dims import Model\nfrom barril.units import Scalar\n"
                "with worlds.world('posc') as db:\n    r = %s\n    got = Model(db).base_magnitude(r.GetQuantity(), r.value)\n"
                "    print(r, float(got))\n    assert abs(float(got) - %r) <= 1e-12 * %r\n" % (algebra.expr(h), float(exp_mag), abs(float(exp_mag)))
            )
            _judge(part, model, sig, res, exp_dim, exp_mag, {"history": algebra.describe(h)}, snippet)

        graph, transitions = algebra.explore(db, depth_graph, on_transition=on_transition, reciprocals=True)
        _mixed_units(part, db)
        states = [s for s in graph if s.depth <= depth_pairs]
        part.sample({"deepest_history": algebra.describe(graph[-1].history), "result": repr(graph[-1].scalar)})
    _G["v1"] = states
    tasks = [(c, "v1") for c in chunks(range(len(states)), 64)]
    if ctx.thorough:
        _G["v2"] = states
        tasks += [(c, "v2") for c in chunks(range(len(states)), 64)]
    run_sharded(ctx, _pairs_task, tasks)
    ctx.level = "model_checking"
    ctx.states = len(graph)
    ctx.transitions = transitions + ctx.part.counters.get("pairs", 0)
    ctx.traces = ctx.transitions
    ctx.rule = (
        "BFS over products/quotients from %d atoms (category, unit) and their reciprocals 1.0/atom to depth %d (graph) and all ordered pairs of the %d states of depth <= %d; "
        "non-trivial = ordered pairs whose product has at least two composing entries; outcomes = distinct unit strings of products"
        % (len(algebra.BASIS), depth_graph, len(states), depth_pairs)
    )
    ctx.coverage_extra = {
        "max_depth": depth_graph,
        "pair_states": len(states),
        "dimension_classes": len({s.dimkey for s in graph}),
        "alphabet": {"atoms": algebra.BASIS, "values": algebra.PRIMES, "ops": ["*", "/", "//", "**1..3", "(a*b)/b", "a/a"], "containers": ["Scalar", "Array[list]", "Array[ndarray]", "Quantity"]},
    }
    ctx.assumptions = [
        "scale-only units (as the property says); values non-zero; state identity = ordered composing map",
        "magnitudes judged by the exact-rational dims model built from the table's written coefficients (the table itself is judged by C01/C06)",
        "histories longer than the stated depth are not covered",
    ]
