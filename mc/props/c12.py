"""
C12  Limit validation depends only on the physical amount.

World: a hand-registered database rebuilt per configuration (worlds.mini("bare")): quantity type
`length` (m, cm, km, mm) and the affine type `temperature` (K, degC, degF).

(1) Validation.  Configurations: limit kind {none, min, max, both} x {inclusive, exclusive} per side
    (9) x default unit = every unit of the type.  For every unit u of the type a probe alphabet is
    built *in u*: below, exactly-at-min (only when the conversion to the default unit is exact as
    floats and as rationals), just inside, inside, just below max, exactly-at-max, above, NaN, +inf,
    -inf.  Objects: Scalar, FractionScalar (whole and number + 1/2), Array and FixedArray over
    list / tuple / ndarray for EVERY sequence of length 0..3 (thorough: 0..4) over the alphabet (so
    every order of elements), lists of tuples over the non-NaN part.
    Oracle = the property's definition: valid iff every non-NaN amount, converted with db.Convert
    to the default unit, satisfies the limits (a NaN Scalar satisfies no limit); IsValid() equals
    it, CheckValidity() raises QuantityValidationError iff not, with operator/limit_value naming a
    violated side and value an offending amount in the default unit; verdicts stable on a second
    call; db.CheckValueForCategory and ScalarMinMaxValidator agree.
(2) Registration.  AddCategory over limits x exclusivity x default_value in {None, below, at min,
    inside, at max, above} x default_unit in {None, each unit} x valid_units in {None, subsets}
    (+ from_category with overridden limits): either rejected, or Scalar(category) /
    FractionScalar(category) / Array(category) are valid, the default value satisfies the limits
    incl. exclusivity and a default unit *derived* by AddCategory lies in valid_units.
"""
import itertools
import math

# the histories of this check run on hand-registered databases rebuilt per history: the warm regime of the
# thorough tier (worlds.warm_up on the shipped table) would only repeat the same exploration
WARM_REGIME = False

import numpy as np

from barril.units import Array, FixedArray, FractionScalar, ObtainQuantity, Scalar
from barril.units.exceptions import QuantityValidationError
from barril.basic.fraction import FractionValue
from barril.units.scalar_validation.scalar_min_max_validator import ScalarMinMaxValidator

from .. import worlds
from ..par import run_sharded
from ..ref.dims import Model, frac
from ..runner import HarnessError, Part

TYPES = {
    "length": (["m", "cm", "km", "mm"], 2.0, 500.0),
    "temperature": (["K", "degC", "degF"], 273.15, 373.15),
    "time": (["s", "min"], -3600.0, 0.0),  # a maximum of exactly zero (and negative amounts) in every unit
}
LIMIT_KINDS = [
    ("none", None, None, False, False),
    ("min incl", "lo", None, False, False),
    ("min excl", "lo", None, True, False),
    ("max incl", None, "hi", False, False),
    ("max excl", None, "hi", False, True),
    ("both incl/incl", "lo", "hi", False, False),
    ("both incl/excl", "lo", "hi", False, True),
    ("both excl/incl", "lo", "hi", True, False),
    ("both excl/excl", "lo", "hi", True, True),
]


def satisfies(amount, lo, hi, lo_x, hi_x):
    """the property's definition for one non-NaN amount in the default unit"""
    if lo is not None:
        if lo_x:
            if not amount > lo:
                return False
        elif not amount >= lo:
            return False
    if hi is not None:
        if hi_x:
            if not amount < hi:
                return False
        elif not amount <= hi:
            return False
    return True


def violated_sides(amount, lo, hi, lo_x, hi_x):
    out = []
    if lo is not None and not (amount > lo if lo_x else amount >= lo):
        out.append((">" if lo_x else ">=", lo))
    if hi is not None and not (amount < hi if hi_x else amount <= hi):
        out.append(("<" if hi_x else "<=", hi))
    return out


def make_world(qt, du, kind, default_value="inside"):
    """fresh database with category 'lim' of quantity type qt -> (db, lo, hi, lo_x, hi_x)"""
    db = worlds.mini("bare")
    units, lo_b, hi_b = TYPES[qt]
    base = units[0]
    lo_du = db.Convert(qt, base, du, lo_b)
    hi_du = db.Convert(qt, base, du, hi_b)
    _n, l, h, lx, hx = kind
    lo = lo_du if l else None
    hi = hi_du if h else None
    mid = db.Convert(qt, base, du, (lo_b + hi_b) / 2)
    db.AddCategory("lim", qt, default_unit=du, default_value=mid, min_value=lo, max_value=hi, is_min_exclusive=lx, is_max_exclusive=hx)
    return db, lo, hi, lx, hx, lo_du, hi_du


def probes(db, model, qt, u, du, lo_du, hi_du):
    """alphabet of values written in unit u: list of (name, x)"""
    units, lo_b, hi_b = TYPES[qt]
    base = units[0]
    conv = db.Convert
    delta = 1e-7 * max(abs(lo_b), abs(hi_b))
    out = []

    def from_base(y):
        return conv(qt, base, u, y)

    out.append(("below", from_base(lo_b - (hi_b - lo_b) / 2)))
    out.append(("just below min", from_base(lo_b - delta)))
    out.append(("just inside min", from_base(lo_b + delta)))
    out.append(("inside", from_base((lo_b + hi_b) / 2)))
    out.append(("just inside max", from_base(hi_b - delta)))
    out.append(("just above max", from_base(hi_b + delta)))
    out.append(("above", from_base(hi_b * 1.5)))
    for name, lim in (("exactly at min", lo_du), ("exactly at max", hi_du)):
        x0 = conv(qt, du, u, lim)
        if conv(qt, u, du, x0) == lim and model.tobase(u, frac(x0)) == model.tobase(du, frac(lim)):
            out.append((name, x0))
    out.append(("nan", float("nan")))
    out.append(("+inf", float("inf")))
    out.append(("-inf", float("-inf")))
    return out


def _check_exception(part, sig, snippet, e, amounts, lo, hi, lx, hx):
    """a rejection must report a violated limit, its operator and an offending amount"""
    if not isinstance(e, QuantityValidationError):
        part.violation(sig + ":rejected with %s instead of QuantityValidationError" % type(e).__name__, {"error": repr(e)}, snippet)
        return
    sides = set()
    for a in amounts:
        if not (isinstance(a, float) and math.isnan(a)):
            sides.update(violated_sides(a, lo, hi, lx, hx))
        else:
            # a NaN Scalar satisfies no limit: every existing side counts as violated
            if lo is not None:
                sides.add((">" if lx else ">=", lo))
            if hi is not None:
                sides.add(("<" if hx else "<=", hi))
    if (e.operator, e.limit_value) not in sides:
        part.violation(sig + ":reports a limit that is not violated", {"operator": e.operator, "limit_value": e.limit_value, "violated": sorted(sides)}, snippet)
        return
    offending = [a for a in amounts if (isinstance(a, float) and math.isnan(a)) or (e.operator, e.limit_value) in violated_sides(a, lo, hi, lx, hx)]
    v = e.value
    ok = any((v == a) or (isinstance(a, float) and math.isnan(a) and isinstance(v, float) and math.isnan(v)) for a in offending)
    if not ok:
        part.violation(sig + ":reported value is not an offending amount in the default unit", {"value": v, "offending": offending}, snippet)


def _validate_object(part, sig, snippet, obj, truth, amounts, lo, hi, lx, hx):
    part.count("evaluations")
    for round_ in (1, 2):
        try:
            got = obj.IsValid()
        except Exception as e:
            part.violation(sig + ":IsValid raised", {"error": repr(e)}, snippet)
            return
        if got is not truth and got != truth:
            part.violation(sig + ":IsValid() is %r%s" % (got, " on the second call" if round_ == 2 else ""), {"amounts_in_default_unit": amounts, "limits": [lo, hi, lx, hx], "expected": truth}, snippet)
            return
        try:
            obj.CheckValidity()
            raised = None
        except ValueError as e:
            raised = e
        except Exception as e:
            part.violation(sig + ":CheckValidity raised %s" % type(e).__name__, {"error": repr(e)}, snippet)
            return
        if (raised is None) != truth:
            part.violation(sig + ":CheckValidity %s%s" % ("accepted" if raised is None else "rejected", " on the second call" if round_ == 2 else ""), {"amounts_in_default_unit": amounts, "limits": [lo, hi, lx, hx], "expected_valid": truth}, snippet)
            return
        if raised is not None:
            _check_exception(part, sig, snippet, raised, amounts, lo, hi, lx, hx)


def _snip(qt, du, kind, body):
    return (
        "import numpy as np\nfrom mc import worlds\nfrom mc.props import c12\nfrom barril.units import *\nfrom barril.units import FractionScalar\nfrom barril.basic.fraction import FractionValue\n"
        "db, lo, hi, lx, hx, _l, _h = c12.make_world(%r, %r, %r)\nwith worlds.installed(db):\n    nan, inf = float('nan'), float('inf')\n%s\n" % (qt, du, kind, body)
    )


def _validation_task(task):
    qt, du, maxlen = task
    part = Part()
    units = TYPES[qt][0]
    for kind in LIMIT_KINDS:
        db, lo, hi, lx, hx, lo_du, hi_du = make_world(qt, du, kind)
        with worlds.installed(db):
            model = Model(db)
            part.count("configurations")
            for u in units:
                P = probes(db, model, qt, u, du, lo_du, hi_du)
                names = [n for n, _x in P]
                xs = [x for _n, x in P]
                amounts = [db.Convert(qt, u, du, x) for x in xs]
                okv = [(not math.isnan(a)) and satisfies(a, lo, hi, lx, hx) for a in amounts]
                has_limits = lo is not None or hi is not None
                # harness sanity: the constructed probes lie where their names say
                for n, a in zip(names, amounts):
                    if n in ("just inside min", "inside", "just inside max") and not (lo_du < a < hi_du):
                        raise HarnessError("probe %s of %s/%s is not inside" % (n, qt, u))
                part.count("exact_boundary_probes", sum(1 for n in names if n.startswith("exactly")))
                # ---- Scalar, FractionScalar, CheckValueForCategory, validator message
                for n, x, a, ok in zip(names, xs, amounts, okv):
                    truth = ok if has_limits else True
                    if math.isnan(x) and not has_limits:
                        truth = True
                    sig = "C12:%s default %s:%s:Scalar %s in %s" % (qt, du, kind[0], n, u)
                    sn = lambda x=x, u=u, truth=truth: _snip(qt, du, kind, "    s = Scalar('lim', %s, %r)\n    print(s, s.IsValid(), db.Convert(%r, %r, %r, s.value), lo, hi, lx, hx)\n    assert s.IsValid() == %r\n" % (_lit(x), u, qt, u, du, truth))
                    _validate_object(part, sig, sn, Scalar("lim", x, u), truth, [a], lo, hi, lx, hx)
                    part.add("outcomes", ("Scalar", n, truth))
                    if n.startswith("exactly"):
                        part.add("nontrivial", (qt, du, kind[0], u, n))
                    part.count("evaluations")
                    try:
                        db.CheckValueForCategory("lim", x, u)
                        r = True
                    except ValueError:
                        r = False
                    if r != truth:
                        part.violation(sig + ":db.CheckValueForCategory disagrees", {"accepted": r, "expected": truth}, sn)
                    msg = ScalarMinMaxValidator.CreateScalarCheckErrorMsg(Scalar("lim", x, u), "p")
                    if (msg is None) != truth:
                        part.violation(sig + ":ScalarMinMaxValidator disagrees", {"message": msg, "expected_valid": truth}, sn)
                    if math.isfinite(x):
                        forms = [("whole", FractionValue(number=x))]
                        if (x - 0.5) + 0.5 == x:
                            fv = FractionValue(x - 0.5, (1, 2))
                            if float(fv) == x:
                                forms.append(("number + 1/2", fv))
                        for fname, fv in forms:
                            fsig = "C12:%s default %s:%s:FractionScalar(%s) %s in %s" % (qt, du, kind[0], fname, n, u)
                            _validate_object(part, fsig, None, FractionScalar("lim", fv, u), truth, [a], lo, hi, lx, hx)
                # ---- ONE FractionScalar whose FractionValue (held by reference) the caller edits in place between the
                # validations: the verdict follows the amount it holds now
                finite = [j for j in range(len(xs)) if math.isfinite(xs[j])]
                if finite:
                    fv_shared = FractionValue(number=xs[finite[0]])
                    fs_shared = FractionScalar("lim", fv_shared, u)
                    for j in finite + finite[::-1]:
                        fv_shared.SetNumber(xs[j])
                        truth_j = okv[j] if has_limits else True
                        _validate_object(part, "C12:%s default %s:%s:one FractionScalar, its FractionValue edited in place to %s in %s" % (qt, du, kind[0], names[j], u), None, fs_shared, truth_j, [amounts[j]], lo, hi, lx, hx)
                # ---- arrays: every sequence of length 0..maxlen over the alphabet
                idx = range(len(xs))
                for L in range(maxlen + 1):
                    for seq in itertools.product(idx, repeat=L):
                        vals = [xs[i] for i in seq]
                        am = [amounts[i] for i in seq]
                        truth = all(okv[i] or math.isnan(xs[i]) for i in seq) if has_limits else True
                        considered = [a for a in am if not math.isnan(a)]
                        for cont in ("list", "tuple", "ndarray"):
                            values = vals if cont == "list" else tuple(vals) if cont == "tuple" else np.array(vals, dtype=float)
                            sig = "C12:%s default %s:%s:Array[%s] %s in %s" % (qt, du, kind[0], cont, [names[i] for i in seq], u)
                            sn = lambda cont=cont, vals=vals, u=u, truth=truth: _snip(qt, du, kind, "    a = Array('lim', %s, %r)\n    print(a.IsValid(), [db.Convert(%r, %r, %r, v) for v in a.values], lo, hi, lx, hx)\n    assert a.IsValid() == %r\n" % (_cont_lit(cont, vals), u, qt, u, du, truth))
                            _validate_object(part, sig, sn, Array("lim", values, u), truth, considered, lo, hi, lx, hx)
                            if L >= 2:
                                values2 = list(vals) if cont == "list" else tuple(vals) if cont == "tuple" else np.array(vals, dtype=float)
                                _validate_object(part, sig.replace("Array[", "FixedArray["), None, FixedArray(L, "lim", values2, u), truth, considered, lo, hi, lx, hx)
                        if u == du and 1 <= L <= 2:
                            # the same amounts held in single precision (written in the default unit, so that no conversion
                            # is involved): the verdict is about the amounts the array really holds, compared in double
                            v32 = np.array(vals, dtype=np.float32)
                            am32 = [float(x) for x in v32]
                            ok32 = [(not math.isnan(a)) and satisfies(a, lo, hi, lx, hx) for a in am32]
                            truth32 = all(o or math.isnan(a) for o, a in zip(ok32, am32)) if has_limits else True
                            _validate_object(part, "C12:%s default %s:%s:Array[ndarray float32] %s in %s" % (qt, du, kind[0], [names[i] for i in seq], u), None, Array("lim", v32, u), truth32, [a for a in am32 if not math.isnan(a)], lo, hi, lx, hx)
                        part.add("outcomes", ("Array", L, truth))
                        if L >= 2 and len(set(seq)) > 1:
                            part.count("nontrivial")
                # ---- lists of tuples (non-NaN alphabet: the NaN clause speaks of flat arrays)
                fin = [i for i in idx if not math.isnan(xs[i])]
                for pair in itertools.product(fin, repeat=2):
                    for other in fin[:3]:
                        vals = [(xs[pair[0]], xs[pair[1]]), (xs[other], xs[other])]
                        am = [amounts[pair[0]], amounts[pair[1]], amounts[other]]
                        truth = all(okv[i] for i in pair + (other,)) if has_limits else True
                        for mk in (list, tuple):
                            sig = "C12:%s default %s:%s:Array[%s of tuples] %s in %s" % (qt, du, kind[0], mk.__name__, [(names[pair[0]], names[pair[1]]), names[other]], u)
                            _validate_object(part, sig, None, Array("lim", mk(vals), u), truth, am, lo, hi, lx, hx)
                # ... a NaN inside a row is an amount like any other (only FLAT arrays skip NaN): with limits the
                # array is invalid wherever the NaN stands in its row
                inside = [i for i in fin if okv[i]][:2]
                for i in inside:
                    a = xs[i]
                    for where, vals in (("first in its row", [(float("nan"), a), (a, a)]), ("second in its row", [(a, float("nan")), (a, a)]), ("last of the last row", [(a, a), (a, float("nan"))])):
                        for mk in (list, tuple):
                            sig = "C12:%s default %s:%s:Array[%s of tuples] NaN %s next to %s in %s" % (qt, du, kind[0], mk.__name__, where, names[i], u)
                            _validate_object(part, sig, None, Array("lim", mk(vals), u), not has_limits, [float("nan"), amounts[i]], lo, hi, lx, hx)
    part.sample({"quantity_type": qt, "default_unit": du, "limit_kinds": [k[0] for k in LIMIT_KINDS], "units": units, "max_array_length": maxlen}, cap=1)
    return part


def _lit(x):
    if math.isnan(x):
        return "nan"
    if math.isinf(x):
        return "inf" if x > 0 else "-inf"
    return repr(x)


def _cont_lit(cont, vals):
    body = "[" + ", ".join(_lit(v) for v in vals) + "]"
    return {"list": body, "tuple": "tuple(%s)" % body, "ndarray": "np.array(%s, dtype=float)" % body}[cont]


# -- registration --------------------------------------------------------------------------------


def _registration_task(qt):
    part = Part()
    units, lo_b, hi_b = TYPES[qt]
    base = units[0]
    subsets = [None] + [list(s) for r in (1, 2) for s in itertools.combinations(units, r)] + [list(units)]
    for kind in LIMIT_KINDS:
        _n, l, h, lx, hx = kind
        for du in [None] + units:
            for vu in subsets:
                for dv_name in ("None", "below", "at min", "inside", "at max", "above"):
                    for via in ("direct", "from_category"):
                        db = worlds.mini("bare")
                        eff_du_guess = du or base
                        lo_v = db.Convert(qt, base, eff_du_guess, lo_b) if l else None
                        hi_v = db.Convert(qt, base, eff_du_guess, hi_b) if h else None
                        lo_ref = db.Convert(qt, base, eff_du_guess, lo_b)
                        hi_ref = db.Convert(qt, base, eff_du_guess, hi_b)
                        dv = {
                            "None": None,
                            "below": lo_ref - (hi_ref - lo_ref) / 2,
                            "at min": lo_ref,
                            "inside": (lo_ref + hi_ref) / 2,
                            "at max": hi_ref,
                            "above": hi_ref + (hi_ref - lo_ref) / 2,
                        }[dv_name]
                        kwargs = dict(default_unit=du, default_value=dv, min_value=lo_v, max_value=hi_v, is_min_exclusive=lx, is_max_exclusive=hx, valid_units=list(vu) if vu is not None else None)
                        sig = "C12:register:%s:%s:default_unit=%s valid_units=%s default_value=%s:%s" % (qt, kind[0], du, vu, dv_name, via)
                        sn = (
                            "from mc import worlds\nfrom barril.units import *\ndb = worlds.mini('bare')\nwith worlds.installed(db):\n"
                            + ("    db.AddCategory('src', %r, default_unit=%r, default_value=%r, valid_units=%r)\n    info = db.AddCategory('lim', from_category='src', min_value=%r, max_value=%r, is_min_exclusive=%r, is_max_exclusive=%r)\n" % (qt, du, dv, vu, lo_v, hi_v, lx, hx) if via == "from_category" else "    info = db.AddCategory('lim', %r, **%r)\n" % (qt, kwargs))
                            + "    s = Scalar('lim')\n    print(info, s, s.IsValid())\n    assert s.IsValid()\n    assert info.valid_units is None or info.default_unit in info.valid_units\n"
                        )
                        part.count("evaluations")
                        with worlds.installed(db):
                            try:
                                if via == "from_category":
                                    # the source carries unit choices and default value, the derived category adds the limits
                                    db.AddCategory("src", qt, default_unit=du, default_value=dv, valid_units=list(vu) if vu is not None else None)
                                    info = db.AddCategory("lim", from_category="src", min_value=lo_v, max_value=hi_v, is_min_exclusive=lx, is_max_exclusive=hx)
                                else:
                                    info = db.AddCategory("lim", qt, **kwargs)
                            except Exception as e:
                                part.count("registrations_rejected")
                                part.add("outcomes", ("rejected", type(e).__name__))
                                continue
                            part.count("registrations_accepted")
                            lo, hi = info.min_value, info.max_value
                            if (lo, hi, bool(info.is_min_exclusive), bool(info.is_max_exclusive)) != (lo_v, hi_v, lx, hx):
                                part.violation(sig + ":limits not stored as given", {"info": repr(info)}, sn)
                                continue
                            if not satisfies(info.default_value, lo, hi, lx, hx):
                                part.violation(sig + ":accepted a default value outside the limits", {"default_value": info.default_value, "limits": [lo, hi, lx, hx]}, sn)
                                continue
                            if info.default_unit not in units:
                                part.violation(sig + ":default unit outside the quantity type", {"default_unit": info.default_unit}, sn)
                                continue
                            if du is None and vu is not None and info.default_unit not in vu:
                                part.violation(sig + ":derived default unit is not a valid unit", {"default_unit": info.default_unit, "valid_units": vu}, sn)
                            if du is not None and info.default_unit != du:
                                part.violation(sig + ":explicit default unit replaced", {"default_unit": info.default_unit}, sn)
                            for cls in (Scalar, FractionScalar):
                                try:
                                    s = cls("lim")
                                    valid = s.IsValid()
                                    s.CheckValidity()
                                except Exception as e:
                                    part.violation(sig + ":%s(category) not valid" % cls.__name__, {"error": repr(e)}, sn)
                                    break
                                if not valid or s.GetUnit() != info.default_unit or float(s.GetValue()) != info.default_value:
                                    part.violation(sig + ":%s(category) is not the default value in the default unit" % cls.__name__, {"object": repr(s), "valid": valid}, sn)
                                    break
                            try:
                                a = Array("lim")
                                if not a.IsValid() or a.GetUnit() != info.default_unit:
                                    part.violation(sig + ":Array(category) invalid", {"object": repr(a)}, sn)
                            except Exception as e:
                                part.violation(sig + ":Array(category) raised", {"error": repr(e)}, sn)
                            part.add("outcomes", ("accepted", dv_name, du is None, vu is None))
                            part.add("nontrivial", (kind[0], du, tuple(vu) if vu else None, dv_name, via))
    part.sample({"register": qt, "default_units": [None] + units, "valid_unit_sets": len(subsets), "default_values": ["None", "below", "at min", "inside", "at max", "above"], "via": ["direct", "from_category"]}, cap=1)
    return part


# -- (3) histories: validate, copy (unit / category / values changed), validate again -----------------


def _copy_task(task):
    """The verdict of a copy depends only on ITS amounts and ITS category: every object is (optionally)
    validated first, then copied with the unit, the category and/or the values changed, and the copy
    is judged by the definition (a verdict cached by the source must not travel)."""
    qt, kindA = task
    part = Part()
    units, lo_b, hi_b = TYPES[qt]
    du = units[0]
    du2 = units[2] if len(units) > 2 else units[-1]  # the second category keeps its limits in ANOTHER default unit
    for kindB in LIMIT_KINDS:
        db = worlds.mini("bare")
        lo_du, hi_du = lo_b, hi_b
        limits = {}
        dunit = {"lim": du, "lim2": du2}
        for cname, kind in (("lim", kindA), ("lim2", kindB)):
            _n, l, h, lx, hx = kind
            lo = db.Convert(qt, du, dunit[cname], lo_du) if l else None
            hi = db.Convert(qt, du, dunit[cname], hi_du) if h else None
            db.AddCategory(cname, qt, default_unit=dunit[cname], default_value=db.Convert(qt, du, dunit[cname], (lo_b + hi_b) / 2), min_value=lo, max_value=hi, is_min_exclusive=lx, is_max_exclusive=hx)
            limits[cname] = (lo, hi, lx, hx)
        with worlds.installed(db):
            model = Model(db)
            part.count("copy_configurations")
            for u in (units[0], units[1]):
                P = [p for p in probes(db, model, qt, u, du, lo_du, hi_du) if p[0] in ("below", "inside", "above", "nan")]
                names = [n for n, _x in P]
                xs = [x for _n, x in P]
                u2 = units[1] if u == units[0] else units[0]

                def truth_of(vals, unit, cat, flat=True):
                    lo, hi, lx, hx = limits[cat]
                    if lo is None and hi is None:
                        return True, []
                    am = [db.Convert(qt, unit, dunit[cat], float(v)) for v in vals]
                    return all(math.isnan(a) or satisfies(a, lo, hi, lx, hx) for a in am), [a for a in am if not math.isnan(a)]

                for L in range(0, 3):
                    for seq in itertools.product(range(len(xs)), repeat=L):
                        vals = [xs[i] for i in seq]
                        other_vals = [xs[(i + 1) % len(xs)] for i in seq]
                        for cont in ("list", "tuple", "ndarray"):
                            mk = (lambda v: list(v)) if cont == "list" else (lambda v: tuple(v)) if cont == "tuple" else (lambda v: np.array(v, dtype=float))
                            for classes in (("Array",) if L < 2 else ("Array", "FixedArray")):
                                for prevalidate in (False, True):
                                    for cname, copier in (
                                        ("CreateCopy()", lambda o: (o.CreateCopy(), vals, u, "lim")),
                                        ("CreateCopy(unit=u2)", lambda o: (o.CreateCopy(unit=u2), [db.Convert(qt, u, u2, v) for v in vals], u2, "lim")),
                                        ("CreateCopy(unit=u, category=lim2)", lambda o: (o.CreateCopy(unit=u, category="lim2"), vals, u, "lim2")),
                                        ("CreateCopy(unit=u2, category=lim2)", lambda o: (o.CreateCopy(unit=u2, category="lim2"), [db.Convert(qt, u, u2, v) for v in vals], u2, "lim2")),
                                        ("CreateCopy(values=other)", lambda o: (o.CreateCopy(values=mk(other_vals)), other_vals, u, "lim")),
                                        ("CreateCopy(values=other, unit=u, category=lim2)", lambda o: (o.CreateCopy(values=mk(other_vals), unit=u, category="lim2"), other_vals, u, "lim2")),
                                    ):
                                        part.count("evaluations")
                                        src = Array("lim", mk(vals), u) if classes == "Array" else FixedArray(L, "lim", mk(vals), u)
                                        if prevalidate:
                                            src.IsValid()
                                        sig = "C12:copy:%s:%s -> %s:%s[%s] %s in %s:%s%s" % (qt, kindA[0], kindB[0], classes, cont, [names[i] for i in seq], u, cname, " after IsValid()" if prevalidate else "")
                                        try:
                                            cp, cvals, cunit, ccat = copier(src)
                                        except Exception as e:
                                            part.violation(sig + ":copy raised", {"error": repr(e)})
                                            continue
                                        truth, considered = truth_of(cvals, cunit, ccat)
                                        lo, hi, lx, hx = limits[ccat]
                                        sn = None
                                        if cp.GetCategory() != ccat or cp.GetUnit() != cunit:
                                            part.violation(sig + ":copy carries another unit/category", {"copy": repr(cp), "category": cp.GetCategory()})
                                            continue
                                        _validate_object(part, sig, sn, cp, truth, considered, lo, hi, lx, hx)
                                        # and the source still has ITS verdict
                                        t0, c0 = truth_of(vals, u, "lim")
                                        l0 = limits["lim"]
                                        _validate_object(part, sig + ":source afterwards", sn, src, t0, c0, *l0)
                                        if prevalidate and truth != t0:
                                            part.count("nontrivial")
                                        part.add("outcomes", ("copy", cname, truth))
                # Scalars and FractionScalars
                for n, x in P:
                    for prevalidate in (False, True):
                        for cls in (Scalar, FractionScalar):
                            if cls is FractionScalar and not math.isfinite(x):
                                continue
                            for cname, unit2, cat2 in (("CreateCopy(unit=u2)", u2, "lim"), ("CreateCopy(unit=u, category=lim2)", u, "lim2"), ("CreateCopy(unit=u2, category=lim2)", u2, "lim2")):
                                part.count("evaluations")
                                src = cls("lim", x, u)
                                if prevalidate:
                                    src.IsValid()
                                cp = src.CreateCopy(unit=unit2, category=cat2) if cat2 == "lim2" else src.CreateCopy(unit=unit2)
                                a = db.Convert(qt, u, dunit[cat2], x) if unit2 == u else db.Convert(qt, unit2, dunit[cat2], db.Convert(qt, u, unit2, x))
                                lo, hi, lx, hx = limits[cat2]
                                truth = True if (lo is None and hi is None) else ((not math.isnan(a)) and satisfies(a, lo, hi, lx, hx))
                                _validate_object(part, "C12:copy:%s:%s -> %s:%s %s in %s:%s%s" % (qt, kindA[0], kindB[0], cls.__name__, n, u, cname, " after IsValid()" if prevalidate else ""), None, cp, truth, [a], lo, hi, lx, hx)
    return part


LONG = [7, 255, 256, 257, 1023, 1024, 1025, 4097]


def _long_task(task):
    """Long arrays (around powers of two, where vectorised shortcuts like to switch on): all inside, all NaN,
    one offending element at the start / middle / end, NaN everywhere but one element - list, tuple,
    float64 and float32 ndarrays, integer ndarray."""
    qt, kind = task
    part = Part()
    units = TYPES[qt][0]
    du = units[0]
    db, lo, hi, lx, hx, lo_du, hi_du = make_world(qt, du, kind)
    has_limits = lo is not None or hi is not None
    nan = float("nan")
    with worlds.installed(db):
        model = Model(db)
        for u in (units[0], units[1]):
            P = dict(probes(db, model, qt, u, du, lo_du, hi_du))
            inside, below, above = P["inside"], P["below"], P["above"]
            for L in LONG:
                patterns = [
                    ("all inside", [inside] * L),
                    ("all NaN", [nan] * L),
                    ("below at the start", [below] + [inside] * (L - 1)),
                    ("above in the middle", [inside] * (L // 2) + [above] + [inside] * (L - L // 2 - 1)),
                    ("below at the end", [inside] * (L - 1) + [below]),
                    ("NaN but one inside", [nan] * (L - 1) + [inside]),
                    ("NaN but one above (first)", [above] + [nan] * (L - 1)),
                ]
                for pname, vals in patterns:
                    am = [db.Convert(qt, u, du, v) for v in (below, inside, above)]
                    conv = {below: am[0], inside: am[1], above: am[2]}
                    considered = [conv[v] for v in vals if v == v]
                    truth = all(satisfies(a, lo, hi, lx, hx) for a in considered) if has_limits else True
                    for cont, mk in (("list", list), ("tuple", tuple), ("ndarray float64", lambda v: np.array(v, dtype=float)), ("ndarray float32", lambda v: np.array(v, dtype=np.float32))):
                        if cont == "ndarray float32" and u != du:
                            continue  # (float32 conversions are judged by C02 where float32 can hold them)
                        cons = considered if cont != "ndarray float32" else [float(np.float32(a)) for a in considered]
                        sig = "C12:long array:%s:%s:%s len %d %s in %s" % (qt, kind[0], cont, L, pname, u)
                        _validate_object(part, sig, None, Array("lim", mk(vals), u), truth, cons, lo, hi, lx, hx)
                        if cont != "ndarray float32":
                            _validate_object(part, sig.replace("long array", "long FixedArray"), None, FixedArray(L, "lim", mk(vals), u), truth, cons, lo, hi, lx, hx)
                    part.add("outcomes", ("long", pname, truth))
        part.count("long_array_configurations")
    return part


def _rereg_task(task):
    """Histories around a RE-registration: the units' own default category (named like the quantity type) starts
    without limits, objects are looked up (without a category / with it / not at all), then the application registers
    the category again with limits (override=True): every object built afterwards - with or without the category
    spelled out, of units seen before or not - is judged by the new limits.  And the other way: limits first, then
    re-registered without."""
    qt, kind = task
    part = Part()
    units = TYPES[qt][0]
    du = units[0]
    _n, l, h, lx, hx = kind
    for first in ("category-less lookups of half the units first", "category-less lookups first", "explicit-category lookups first", "nothing first"):
        for direction in ("limits added", "limits removed"):
            db = worlds.mini("base")
            with worlds.installed(db):
                model = Model(db)
                _u, lo_b, hi_b = TYPES[qt]
                lo_du, hi_du = db.Convert(qt, du, du, lo_b), db.Convert(qt, du, du, hi_b)
                lo, hi = (lo_du if l else None), (hi_du if h else None)
                with_limits = dict(default_unit=du, default_value=db.Convert(qt, du, du, (lo_b + hi_b) / 2), min_value=lo, max_value=hi, is_min_exclusive=lx, is_max_exclusive=hx)
                if direction == "limits removed":
                    db.AddCategory(qt, qt, override=True, **with_limits)
                seen = units if "half" not in first else units[::2]
                for u in seen:
                    try:
                        if first.startswith("category-less"):
                            Scalar(1.0, u).IsValid(), Array([1.0, 2.0], u).IsValid(), ObtainQuantity(u), FractionScalar(1.0, u).IsValid()
                        elif first.startswith("explicit"):
                            Scalar(1.0, u, qt).IsValid(), Array([1.0, 2.0], u, qt).IsValid(), ObtainQuantity(u, qt)
                    except Exception as e:
                        raise HarnessError("warm-up lookup failed: %r" % (e,))
                if direction == "limits added":
                    db.AddCategory(qt, qt, override=True, **with_limits)
                    elo, ehi, elx, ehx = lo, hi, lx, hx
                else:
                    db.AddCategory(qt, qt, override=True, default_unit=du)
                    elo, ehi, elx, ehx = None, None, False, False
                has_limits = elo is not None or ehi is not None
                for u in units:
                    for n, x in probes(db, model, qt, u, du, lo_du, hi_du):
                        if x != x or n.startswith("exactly"):
                            continue
                        a = db.Convert(qt, u, du, x)
                        truth = satisfies(a, elo, ehi, elx, ehx) if has_limits else True
                        for fname, mk in (("Scalar(x, u)", lambda: Scalar(x, u)), ("Scalar(x, u, category)", lambda: Scalar(x, u, qt)), ("Array([x], u)", lambda: Array([x], u)), ("Array([x], u, category)", lambda: Array([x], u, qt)),
                                          ("FractionScalar(x, u)", lambda: FractionScalar(x, u)), ("Scalar(ObtainQuantity(u), x)", lambda: Scalar(ObtainQuantity(u), x))):
                            sig = "C12:re-registration (%s):%s:%s:%s; then %s %s in %s" % (direction, qt, kind[0], first, fname, n, u)
                            snippet = _rereg_snip(qt, du, with_limits, direction, first, seen, fname, x, u, truth)
                            try:
                                obj = mk()
                            except Exception as e:
                                part.violation(sig + ":construction raised", {"error": repr(e)}, snippet)
                                continue
                            _validate_object(part, sig, snippet, obj, truth, [a], elo, ehi, elx, ehx)
                part.count("reregistration_histories")
                part.add("outcomes", ("rereg", direction, first.split()[0]))
    return part


def _rereg_snip(qt, du, with_limits, direction, first, seen, fname, x, u, truth):
    warm = "".join("    Scalar(1.0, %r%s).IsValid()\n" % (w, "" if first.startswith("category-less") else ", %r" % qt) for w in seen) if not first.startswith("nothing") else ""
    a = "    db.AddCategory(%r, %r, override=True, **%r)\n" % (qt, qt, with_limits)
    b = "    db.AddCategory(%r, %r, override=True, default_unit=%r)\n" % (qt, qt, du)
    body = (warm + a) if direction == "limits added" else (a + warm + b)
    expr = fname.replace("category", repr(qt)).replace("(x", "(%r" % x).replace("[x]", "[%r]" % x).replace(", x)", ", %r)" % x).replace(" u", " %r" % u).replace("(u)", "(%r)" % u)
    return ("from mc import worlds\nfrom barril.units import *\nfrom barril.units import ObtainQuantity\ndb = worlds.mini('base')\nwith worlds.installed(db):\n" + body
            + "    obj = %s\n    print(obj, obj.IsValid())\n    assert obj.IsValid() is %r\n" % (expr, truth))


def _task(task):
    if task[0] == "rereg":
        return _rereg_task(task[1])
    if task[0] == "long":
        return _long_task(task[1])
    if task[0] == "copy":
        return _copy_task(task[1])
    if task[0] == "validate":
        return _validation_task(task[1])
    return _registration_task(task[1])


def run(ctx):
    maxlen = 4 if ctx.thorough else 3
    tasks = []
    for qt, (units, _lo, _hi) in TYPES.items():
        for du in units:
            tasks.append(("validate", (qt, du, maxlen)))
        tasks.append(("register", qt))
        for kindA in LIMIT_KINDS:
            tasks.append(("copy", (qt, kindA)))
            tasks.append(("long", (qt, kindA)))
            tasks.append(("rereg", (qt, kindA)))
    run_sharded(ctx, _task, tasks)
    c = ctx.part.counters
    if c.get("exact_boundary_probes", 0) < 20:
        raise HarnessError("too few exact boundary probes (%d): the boundary clause would be vacuous" % c.get("exact_boundary_probes", 0))
    if not c.get("registrations_rejected") or not c.get("registrations_accepted"):
        raise HarnessError("registration part vacuous")
    ctx.level = "exploration"
    ctx.rule = (
        "complete product: 2 quantity types (one affine) x every default unit x 9 limit configurations x every unit x probe alphabet (below/just below/exactly at/just inside/inside/... /NaN/+-inf) for Scalar, FractionScalar, "
        "CheckValueForCategory, validator; every sequence of length 0..%d over the alphabet for Array/FixedArray x list/tuple/ndarray; lists of tuples; registration: 9 limit kinds x default unit x 11-15 valid-unit sets x 6 default values x direct/from_category. "
        "histories lookups (none / category-less / with category) ; AddCategory(override=True) adding or removing the limits ; build and validate, 3 types x 9 limit kinds x 4 x 2; histories validate? ; copy ; validate over all 9 x 9 ordered pairs of limit configurations of two categories x 6 CreateCopy variants (unit / category / values changed) x arrays of length 0..2 x containers x Array/FixedArray, and Scalar/FractionScalar copies; non-trivial = exact-boundary Scalar probes + mixed arrays of length >= 2 + accepted registrations (distinct)" % maxlen
    )
    ctx.coverage_extra = {k: c.get(k, 0) for k in ("configurations", "exact_boundary_probes", "registrations_accepted", "registrations_rejected", "copy_configurations")}
    ctx.assumptions = [
        "the oracle converts with db.Convert (judged by C01) and applies the property's definition; exact-boundary probes are used only where the conversion is exact as floats and as rationals, other probes differ from a limit by >= 1e-7 relative",
        "an explicitly passed default_unit outside explicitly passed valid_units is accepted by design (comment in AddCategory) and not judged",
    ]
