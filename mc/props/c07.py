"""
C07  Quantities are immutable values with sound equality, hash and copying.

Explicit-state BFS over closed public operations on the shipped posc database (caches reset per
history).  The harness keeps a strong reference to every Quantity it has ever seen (returned by an
operation or found in the database's cache) and, after EVERY step, compares the fingerprint of
EVERY tracked quantity with the one recorded at first sight and re-evaluates the equality
partition.  Interning clauses are judged against a resolver (reference) that maps each request to
its (category, unit, caption) or composing tuple.
"""
import copy
import pickle
from collections import OrderedDict

import numpy as np

from barril.units import Array, GetUnknownQuantity, ObtainQuantity, Quantity, ReadOnlyError, Scalar
from barril.units.posc import CreateAreaQuantityFromLengthQuantity, CreateVolumeQuantityFromLengthQuantity

from .. import explorer, worlds
from ..ref.registry import fix_legacy
from ..runner import Part


def S(cat, unit, cap=""):
    return ("S", cat, unit, cap or "")


def D(*entries, cap=""):
    return ("D", tuple(entries), cap or "")


LT2 = D(("length", "m", 2), ("time", "s", -1))
MIX = D(("length", "m", 1), ("depth", "cm", 1))
SHARED = {"map": None}  # the caller-owned map of the current history (rebuilt by make())


def _shared_key():
    return D(*[(c, ue[0], ue[1]) for c, ue in SHARED["map"].items()])


def _mix():
    return Quantity.CreateDerived(OrderedDict([("length", ["m", 1]), ("depth", ["cm", 1])]))


def _scal(v, u, c=None):
    return Scalar(v, u, c)


# every op: name -> (callable(db) -> quantity | value | None, expected key or None, interned entry point?)
def _ops():
    o = OrderedDict()

    def q(name, f, key, interned=True):
        o[name] = (f, key, interned)

    q("ObtainQuantity('m')", lambda db: ObtainQuantity("m"), S("length", "m"))
    q("ObtainQuantity('m','length')", lambda db: ObtainQuantity("m", "length"), S("length", "m"))
    q("ObtainQuantity('m','depth')", lambda db: ObtainQuantity("m", "depth"), S("depth", "m"))
    q("ObtainQuantity('cm','length')", lambda db: ObtainQuantity("cm", "length"), S("length", "cm"))
    q("ObtainQuantity('1000ft3/d')", lambda db: ObtainQuantity("1000ft3/d"), S("volume flow rate", "Mcf/d"))
    q("ObtainQuantity('Mcf/d')", lambda db: ObtainQuantity("Mcf/d"), S("volume flow rate", "Mcf/d"))
    q("ObtainQuantity('1000ft3/d','volume flow rate')", lambda db: ObtainQuantity("1000ft3/d", "volume flow rate"), S("volume flow rate", "Mcf/d"))
    q("ObtainQuantity([('m',1)],('length',))", lambda db: ObtainQuantity([("m", 1)], ("length",)), S("length", "m"))
    q("ObtainQuantity([('m',2),('s',-1)],('length','time'))", lambda db: ObtainQuantity([("m", 2), ("s", -1)], ("length", "time")), LT2)
    q("ObtainQuantity([('m',2)],('length',))", lambda db: ObtainQuantity([("m", 2)], ("length",)), D(("length", "m", 2)))
    q("ObtainQuantity([('m',1),('s',-1)],('length','time'))", lambda db: ObtainQuantity([("m", 1), ("s", -1)], ("length", "time")), D(("length", "m", 1), ("time", "s", -1)))
    # (neighbouring exponents: in CPython hash(-1) == hash(-2), so -1 / -2 is where a hash-based comparison collides)
    q("ObtainQuantity([('m',1),('s',-2)],('length','time'))", lambda db: ObtainQuantity([("m", 1), ("s", -2)], ("length", "time")), D(("length", "m", 1), ("time", "s", -2)))
    q("1.0/(Scalar(s)*Scalar(s))", lambda db: (1.0 / (_scal(4.0, "s") * _scal(2.0, "s"))).GetQuantity(), D(("time", "s", -2)))
    q("ObtainQuantity(OrderedDict(length:[m,2]))", lambda db: ObtainQuantity(OrderedDict([("length", ["m", 2])])), D(("length", "m", 2)))
    q("ObtainQuantity(OrderedDict(list values),caption='cap')", lambda db: ObtainQuantity(OrderedDict([("length", ["m", 2]), ("time", ["s", -1])]), unknown_unit_caption="cap"), D(("length", "m", 2), ("time", "s", -1), cap="cap"))
    q("ObtainQuantity(OrderedDict(list values))", lambda db: ObtainQuantity(OrderedDict([("length", ["m", 2]), ("time", ["s", -1])])), LT2)
    q("ObtainQuantity(OrderedDict(tuple values))", lambda db: ObtainQuantity(OrderedDict([("length", ("m", 2)), ("time", ("s", -1))])), LT2)
    q("ObtainQuantity(OrderedDict(length:[m,1]))", lambda db: ObtainQuantity(OrderedDict([("length", ["m", 1])])), S("length", "m"))
    q("ObtainQuantity(None,'length')", lambda db: ObtainQuantity(None, "length"), S("length", "m"))
    q("ObtainQuantity('<unknown>','Unknown','cap')", lambda db: ObtainQuantity("<unknown>", "Unknown", "cap"), S("Unknown", "<unknown>", "cap"))
    q("GetUnknownQuantity('cap')", lambda db: GetUnknownQuantity("cap"), S("Unknown", "<unknown>", "cap"))
    q("GetUnknownQuantity('other')", lambda db: GetUnknownQuantity("other"), S("Unknown", "<unknown>", "other"))
    q("ObtainQuantity('<unknown>','Unknown')", lambda db: ObtainQuantity("<unknown>", "Unknown"), S("Unknown", "<unknown>"))
    q("ObtainQuantity(OrderedDict())", lambda db: ObtainQuantity(OrderedDict()), D())
    q("Quantity.CreateEmpty()", lambda db: Quantity.CreateEmpty(), D())
    q("Quantity('length','m')", lambda db: Quantity("length", "m"), S("length", "m"), interned=False)
    q("Quantity('depth','km')", lambda db: Quantity("depth", "km"), S("depth", "km"), interned=False)
    q("Quantity.CreateDerived(list values)", lambda db: Quantity.CreateDerived(OrderedDict([("length", ["m", 2]), ("time", ["s", -1])])), LT2)
    q("Quantity.CreateDerived(tuple values)", lambda db: Quantity.CreateDerived(OrderedDict([("length", ("m", 2)), ("time", ("s", -1))])), LT2)
    q("Quantity.CreateDerived(length:(angstrom,3))", lambda db: Quantity.CreateDerived(OrderedDict([("length", ("angstrom", 3))])), D(("length", "angstrom", 3)))
    q("CreateAreaQuantityFromLengthQuantity(m)", lambda db: CreateAreaQuantityFromLengthQuantity(ObtainQuantity("m", "length")), S("area", "m2"))
    q("CreateAreaQuantityFromLengthQuantity(angstrom)", lambda db: CreateAreaQuantityFromLengthQuantity(ObtainQuantity("angstrom", "length")), D(("length", "angstrom", 2)))
    q("CreateVolumeQuantityFromLengthQuantity(angstrom)", lambda db: CreateVolumeQuantityFromLengthQuantity(ObtainQuantity("angstrom", "length")), D(("length", "angstrom", 3)))
    q("CreateVolumeQuantityFromLengthQuantity(cm)", lambda db: CreateVolumeQuantityFromLengthQuantity(ObtainQuantity("cm", "length")), S("volume", "cm3"))
    # arithmetic
    q("m*m", lambda db: (_scal(2.0, "m") * _scal(3.0, "m")).GetQuantity(), D(("length", "m", 2)))
    q("m*depth(cm)", lambda db: (_scal(2.0, "m") * _scal(3.0, "cm", "depth")).GetQuantity(), D(("length", "m", 1), ("depth", "m", 1)))
    q("(m*m)/s", lambda db: ((_scal(2.0, "m") * _scal(3.0, "m")) / _scal(4.0, "s")).GetQuantity(), LT2)
    q("angstrom**3 * angstrom", lambda db: ((_scal(2.0, "angstrom") ** 3) * _scal(2.0, "angstrom")).GetQuantity(), D(("length", "angstrom", 4)))
    q("m+cm", lambda db: (_scal(2.0, "m") + _scal(3.0, "cm")).GetQuantity(), S("length", "m"))
    q("depth(km)-m", lambda db: (_scal(2.0, "km", "depth") - _scal(3.0, "m")).GetQuantity(), S("depth", "km"))
    q("(m*m)+(cm*cm)", lambda db: ((_scal(2.0, "m") * _scal(2.0, "m")) + (_scal(3.0, "cm") * _scal(3.0, "cm"))).GetQuantity(), D(("length", "m", 2)))
    q("q(m)*q(s)", lambda db: ObtainQuantity("m", "length") * ObtainQuantity("s", "time"), D(("length", "m", 1), ("time", "s", 1)))
    q("q(m)/q(m)", lambda db: ObtainQuantity("m", "length") / ObtainQuantity("m", "length"), D())
    q("q(cm)**3", lambda db: ObtainQuantity("cm", "length") ** 3, D(("length", "cm", 3)))
    q("Array(m)*Array(cm) ndarray", lambda db: (Array(np.array([1.0, 2.0]), "m") * Array(np.array([3.0, 4.0]), "cm")).GetQuantity(), D(("length", "m", 2)))
    q("Array(m)/Array(s) list", lambda db: (Array([1.0, 2.0], "m") / Array([3.0, 4.0], "s")).GetQuantity(), D(("length", "m", 1), ("time", "s", -1)))
    q("2.0/Scalar(s)", lambda db: (2.0 / _scal(4.0, "s")).GetQuantity(), D(("time", "s", -1)))
    q("LT2.MakeCopy(plain dict, the same factors in the other order)", lambda db: ObtainQuantity([("m", 2), ("s", -1)], ("length", "time")).MakeCopy({"time": ["s", -1], "length": ["m", 2]}), D(("time", "s", -1), ("length", "m", 2)))
    q("LT2.MakeCopy(other map)", lambda db: ObtainQuantity([("m", 2), ("s", -1)], ("length", "time")).MakeCopy(OrderedDict([("length", ["cm", 2]), ("time", ["s", -1])])), D(("length", "cm", 2), ("time", "s", -1)))
    # captions on KNOWN units (the caption is part of the denoted value)
    q("ObtainQuantity('m','length','label')", lambda db: ObtainQuantity("m", "length", "label"), S("length", "m", "label"))
    q("ObtainQuantity('m',None,'label')", lambda db: ObtainQuantity("m", None, "label"), S("length", "m", "label"))
    q("ObtainQuantity('m','length','other label')", lambda db: ObtainQuantity("m", "length", "other label"), S("length", "m", "other label"))
    q("ObtainQuantity('s',caption='elapsed')", lambda db: ObtainQuantity("s", unknown_unit_caption="elapsed"), S("time", "s", "elapsed"))
    q("ObtainQuantity('s')", lambda db: ObtainQuantity("s"), S("time", "s"))
    q("ObtainQuantity(OrderedDict(length:[m,1]),caption='label')", lambda db: ObtainQuantity(OrderedDict([("length", ["m", 1])]), unknown_unit_caption="label"), S("length", "m", "label"))
    q("Scalar(1,'s')", lambda db: _scal(1.0, "s").GetQuantity(), S("time", "s"))
    # a derived quantity holding two units of ONE quantity type under two categories (only creatable
    # directly: arithmetic unifies the units) and arithmetic with it on either side
    q("CreateDerived(length:m, depth:cm)", lambda db: Quantity.CreateDerived(OrderedDict([("length", ["m", 1]), ("depth", ["cm", 1])])), MIX)
    q("CreateDerived(length:m, depth:cm, time:s^-1)", lambda db: Quantity.CreateDerived(OrderedDict([("length", ["m", 1]), ("depth", ["cm", 1]), ("time", ["s", -1])])), D(("length", "m", 1), ("depth", "cm", 1), ("time", "s", -1)))
    q("Scalar(MIX)+Scalar(m*depth(m))", lambda db: (Scalar(_mix(), 2.0) + (_scal(2.0, "m") * _scal(3.0, "m", "depth"))).GetQuantity(), None)
    q("Scalar(m*depth(m))-Scalar(MIX)", lambda db: ((_scal(2.0, "m") * _scal(3.0, "m", "depth")) - Scalar(_mix(), 2.0)).GetQuantity(), None)
    q("Scalar(MIX)+Scalar(s) [fails]", lambda db: Scalar(_mix(), 2.0) + _scal(1.0, "s"), None)
    q("Array(MIX)-Array(m*m) ndarray", lambda db: (Array(_mix(), np.array([1.0, 2.0])) - Array(np.array([1.0, 2.0]), "m") * Array(np.array([1.0, 2.0]), "m")).GetQuantity(), None)
    q("q(MIX)+q(m2)", lambda db: _mix() + ObtainQuantity("m", "length") * ObtainQuantity("m", "length"), None)
    q("Scalar(MIX)*Scalar(km)", lambda db: (Scalar(_mix(), 2.0) * _scal(3.0, "km")).GetQuantity(), None)
    # ONE map object owned by the caller, reused for several requests and edited in between (a loop that
    # builds m2/s, m3/s, m3/min from one dict): quantities obtained earlier must not follow the edits
    q("ObtainQuantity(<shared map>)", lambda db: ObtainQuantity(SHARED["map"]), "SHARED")
    q("Quantity.CreateDerived(<shared map>)", lambda db: Quantity.CreateDerived(SHARED["map"]), "SHARED")
    q("LT2.MakeCopy(<shared map>)", lambda db: ObtainQuantity([("m", 2), ("s", -1)], ("length", "time")).MakeCopy(SHARED["map"]), "SHARED")
    q("LT2.CreateCopyInstance(<shared map>)", lambda db: ObtainQuantity([("m", 2), ("s", -1)], ("length", "time")).CreateCopyInstance(SHARED["map"]), "SHARED")
    q("<caller edits its map: length exponent + 1>", lambda db: SHARED["map"]["length"].__setitem__(1, SHARED["map"]["length"][1] + 1), None)
    q("<caller edits its map: time unit s -> min>", lambda db: SHARED["map"]["time"].__setitem__(0, "min"), None)
    q("<caller edits the map a getter returned: GetCategoryToUnitAndExpsCopy()>", lambda db: ObtainQuantity([("m", 2), ("s", -1)], ("length", "time")).GetCategoryToUnitAndExpsCopy()["length"].__setitem__(1, 7), None)
    # conversions / validation / failing operations (no quantity result)
    q("Scalar(1,'km').GetValue('m')", lambda db: _scal(1.0, "km").GetValue("m"), None)
    q("ObtainQuantity('m').CheckValue(5)", lambda db: ObtainQuantity("m").CheckValue(5.0), None)
    q("Array([1,2],'cm').GetValues('m')", lambda db: Array([1.0, 2.0], "cm").GetValues("m"), None)
    q("m+s [fails]", lambda db: _scal(1.0, "m") + _scal(1.0, "s"), None)
    q("ObtainQuantity('no-such-unit') [fails]", lambda db: ObtainQuantity("no-such-unit"), None)
    q("Scalar(1,'s','length') [fails]", lambda db: _scal(1.0, "s", "length"), None)
    q("(m*m).GetValue('cm2') [fails or converts]", lambda db: (_scal(2.0, "m") * _scal(3.0, "m")).GetValue("cm2"), None)
    return o


OPS_TABLE = _ops()
OPS = list(OPS_TABLE) + ["<copies of every tracked quantity>", "<pickle round trip of every tracked quantity>"]


def fingerprint(q):
    try:
        name = q.GetUnitName()
    except Exception as e:
        name = "raises " + type(e).__name__
    m = q.GetCategoryToUnitAndExps()
    return (
        q.GetCategory(),
        q.GetQuantityType(),
        q.GetUnit(),
        q.GetComposingUnits(),
        q.GetComposingCategories(),
        tuple((c, tuple(ue), type(ue).__name__) for c, ue in m.items()),
        tuple(q.GetComposingUnitsJoiningExponents()),
        q.GetUnknownCaption(),
        q.IsDerived(),
        name,
        hash(q),
        repr(q),
    )


def value_key(q):
    """The identity a quantity denotes according to the property: (category, unit, caption) or the composing tuple."""
    m = [(c, ue[0], ue[1]) for c, ue in q.GetCategoryToUnitAndExps().items()]
    cap = q.GetUnknownCaption() or ""
    if len(m) == 1 and m[0][2] == 1:
        return S(m[0][0], m[0][1], cap)
    return D(*m, cap=cap)


class Sys:
    def __init__(self, db):
        self.db = db
        self.tracked = {}  # id -> [quantity, first fingerprint, request key or None]
        self.by_request = {}  # op name -> first returned object (interned entry points)
        self.eq = {}  # (id, id) -> bool at first sight
        self.broken = False

    def track(self, q, key=None):
        t = self.tracked.get(id(q))
        if t is None:
            self.tracked[id(q)] = [q, fingerprint(q), key]
            return True
        if key is not None and t[2] is None:
            t[2] = key
        return False

    def harvest(self):
        try:
            for q in list(self.db.quantities_cache.values()):
                self.track(q)
        except AttributeError:
            pass
        e = getattr(Quantity, "_EMPTY_QUANTITY", None)
        if e is not None:
            self.track(e)


def make():
    db = worlds.get("posc")  # caches cleared
    worlds.reset_globals()
    SHARED["map"] = OrderedDict([("length", ["m", 2]), ("time", ["s", -1])])
    return Sys(db)


def canon(s):
    if s.broken:
        return "BROKEN"
    try:
        cache = tuple(sorted((repr(k), fingerprint(v)) for k, v in s.db.quantities_cache.items()))
    except AttributeError:
        cache = tuple(sorted(t[1] for t in s.tracked.values()))
    # quantities that are alive but not interned (direct constructor) cannot be reached by the
    # implementation again; they are judged at the step that creates them and on every later step
    # of the same history, but they do not distinguish states.
    # the caller-owned map: its content, and whether any live quantity shares its lists (aliasing is part of
    # the state: two histories with equal caches but different aliasing have different futures)
    shared = SHARED["map"]
    lists = list(shared.values())
    aliased = tuple(sorted(t[1][2] for t in s.tracked.values() if any(ue is l for ue in t[0].GetCategoryToUnitAndExps().values() for l in lists) or t[0].GetCategoryToUnitAndExps() is shared))
    return (cache, getattr(Quantity, "_EMPTY_QUANTITY", None) is not None, tuple((c, tuple(ue)) for c, ue in shared.items()), aliased)


def apply(s, op, part, hist):
    if s.broken:
        return False
    judge = part is not None
    results = []  # (quantity, expected key, interned, request name)
    failure = None
    if op in OPS_TABLE:
        f, key, interned = OPS_TABLE[op]
        if key == "SHARED":
            key = _shared_key()  # what the request denotes NOW
            interned = False  # the same op name denotes different requests as the map is edited
        try:
            r = f(s.db)
            if isinstance(r, Quantity):
                results.append((r, key, interned, op))
        except Exception as e:
            failure = e
    elif op.startswith("<copies"):
        for q, fp0, _k in list(s.tracked.values()):
            for how, c in (("copy", copy.copy(q)), ("deepcopy", copy.deepcopy(q)), ("Copy", q.Copy()), ("MakeCopy", q.MakeCopy()), ("CreateCopyInstance", q.CreateCopyInstance()), ("deepcopy in container", copy.deepcopy([q])[0])):
                if judge and c is not q:
                    _bad(s, part, hist, op, "%s is not the identical object" % how, {"quantity": repr(q)})
                    return True
            if judge:
                try:
                    q.SetUnknownCaption("zzz")
                    _bad(s, part, hist, op, "SetUnknownCaption did not raise", {"quantity": repr(q)})
                    return True
                except ReadOnlyError:
                    pass
                except Exception as e:
                    _bad(s, part, hist, op, "SetUnknownCaption raised %s instead of ReadOnlyError" % type(e).__name__, {"quantity": repr(q)})
                    return True
    else:
        for q, fp0, _k in list(s.tracked.values()):
            try:
                p = pickle.loads(pickle.dumps(q))
            except Exception as e:
                if judge:
                    _bad(s, part, hist, op, "pickle raised", {"quantity": repr(q), "error": repr(e)})
                    return True
                continue
            if judge and not (p == q and hash(p) == hash(q) and fingerprint(p) == fingerprint(q)):
                _bad(s, part, hist, op, "pickle round trip is not equal", {"quantity": repr(q), "unpickled": repr(p)})
                return True
            results.append((p, None, False, None))
    for r, key, interned, name in results:
        s.track(r, key)
    s.harvest()
    if not judge:
        for r, key, interned, name in results:
            if interned and name is not None:
                s.by_request.setdefault(name, r)
        return True
    part.count("evaluations")
    # 1. nothing that was ever alive has changed
    for q, fp0, _k in s.tracked.values():
        fp = fingerprint(q)
        if fp != fp0:
            _bad(s, part, hist, op, "a tracked quantity changed", {"first": fp0, "now": fp})
            return True
    # 2. equality partition stable, consistent with the denoted value, hash agrees
    items = list(s.tracked.values())
    for i in range(len(items)):
        qi = items[i][0]
        ki = value_key(qi)
        for j in range(i, len(items)):
            qj = items[j][0]
            e = qi == qj
            first = s.eq.setdefault((id(qi), id(qj)), e)
            if e != first or (qj == qi) != e or (qi != qj) == e:
                _bad(s, part, hist, op, "equality between two quantities changed or is asymmetric", {"a": repr(qi), "b": repr(qj), "first": first, "now": e})
                return True
            same = ki == value_key(qj)
            if same != e:
                _bad(s, part, hist, op, "equality disagrees with (category, unit, caption) / composing map", {"a": repr(qi), "b": repr(qj), "equal": e, "keys": [ki, value_key(qj)]})
                return True
            if e and hash(qi) != hash(qj):
                _bad(s, part, hist, op, "equal quantities with different hashes", {"a": repr(qi), "b": repr(qj)})
                return True
    # 3. the request resolved as the reference says; repeated interned request -> identical object
    for r, key, interned, name in results:
        if key is not None and value_key(r) != key:
            _bad(s, part, hist, op, "request resolved to another quantity", {"got": value_key(r), "expected": key, "quantity": repr(r)})
            return True
        if interned and name is not None:
            first = s.by_request.setdefault(name, r)
            if first is not r:
                _bad(s, part, hist, op, "repeated request returned a different object", {"quantity": repr(r)})
                return True
            # ... and asked once more right away (histories that repeat a request are merged with the ones that do not)
            if name in OPS_TABLE and OPS_TABLE[name][1] != "SHARED":
                try:
                    again = OPS_TABLE[name][0](s.db)
                except Exception as e:
                    _bad(s, part, hist, op, "the same request raised when repeated", {"error": repr(e)})
                    return True
                if again is not r:
                    _bad(s, part, hist, op, "the same request repeated at once returned a different object", {"quantity": repr(r)})
                    return True
    if failure is None and op.endswith("[fails]"):
        _bad(s, part, hist, op, "did not raise", {"returned": repr(r)[:200]})
        return True
    if failure is not None:
        part.count("failed_operations")
        if "[fails" not in op and "a getter returned" not in op:  # (an edit of a returned copy may be refused: tuples instead of lists)
            _bad(s, part, hist, op, "raised %s" % type(failure).__name__, {"error": repr(failure)})
            return True
    part.add("outcomes", (op, type(failure).__name__ if failure is not None else (value_key(results[0][0]) if results and op in OPS_TABLE else "ok")))
    if len(s.tracked) >= 3:
        part.add("nontrivial", explorer.digest(hist + (op,)))
    return True


def _bad(s, part, hist, op, what, detail):
    s.broken = True
    hist_ops = [OPS[i] for i in hist] + [op]
    part.violation(
        "C07:%s :: %s" % (" ; ".join(hist_ops), what),
        detail,
        "import sys\nfrom mc.props import c07\nsys.exit(c07.replay(%r))\n" % (hist_ops,),
    )


def replay(hist_ops):
    part = Part()
    with worlds.world("posc"):
        s = make()
        idx = []
        for op in hist_ops:
            apply(s, op, part, tuple(idx))
            idx.append(OPS.index(op))
            print(op, "| tracked:", len(s.tracked))
    for v in part.violations:
        print("MISMATCH", v["signature"], v["detail"])
    return 1 if part.violations else 0


def _untouched_objects(part):
    """Quantities (and value objects holding them) that nobody has looked at yet, a registration that changes what
    their category means, and only then the first look: their unit, category, quantity type, composing map and caption are what they were created as (unit NAMES and the
    category's valid units are asked from the database at the time of the question and are not judged).  (The search above reads
    every getter after every step - and thereby fixes whatever a quantity resolves lazily.)"""
    import itertools

    READS = [
        ("GetQuantityType()", lambda q: q.GetQuantityType(), "length"),
        ("GetCategory()", lambda q: q.GetCategory(), "length"),
        ("GetUnit()", lambda q: q.GetUnit(), "cm"),
        ("ConvertScalarValue(2, 'm')", lambda q: q.ConvertScalarValue(2.0, "m"), 0.02),
        ("GetCategoryToUnitAndExps()", lambda q: [(c, tuple(ue)) for c, ue in q.GetCategoryToUnitAndExps().items()], [("length", ("cm", 1))]),
        ("GetUnknownCaption()", lambda q: q.GetUnknownCaption(), ""),
        ("GetCategoryInfo().quantity_type", lambda q: q.GetCategoryInfo().quantity_type, "length"),
    ]
    REGS = [
        ("AddCategory('length', 'time', override=True)", lambda db: db.AddCategory("length", "time", override=True)),
        ("AddCategory('length', 'length', override=True, default_unit='km', valid_units=['km'])", lambda db: db.AddCategory("length", "length", override=True, default_unit="km", valid_units=["km"])),
        ("AddCategory('other', 'length')", lambda db: db.AddCategory("other", "length")),
    ]
    for (rname, reg), order in itertools.product(REGS, itertools.permutations(range(len(READS)), 2)):
        for how, mk in (("ObtainQuantity('cm', 'length')", lambda: ObtainQuantity("cm", "length")), ("Quantity('length', 'cm')", lambda: Quantity("length", "cm")), ("Scalar(1, 'cm', 'length').GetQuantity()", lambda: Scalar(1.0, "cm", "length").GetQuantity())):
            db = worlds.mini()
            with worlds.installed(db):
                q = mk()
                try:
                    reg(db)
                except Exception:
                    pass
                for i in order:
                    name, f, want = READS[i]
                    part.count("evaluations")
                    part.count("first_looks_after_a_registration")
                    try:
                        got = f(q)
                    except Exception as e:
                        got = repr(e)
                    if got != want:
                        part.violation("C07:%s, never looked at ; %s ; first look: %s" % (how, rname, " then ".join(READS[j][0] for j in order)), {"read": name, "got": got, "created_as": want})
                        break


def run(ctx):
    depth = 4 if ctx.thorough else 3
    with worlds.world("posc"):
        res = explorer.bfs(ctx, make, apply, OPS, canon, max_depth=depth)
    _untouched_objects(ctx.part)
    ctx.level = "model_checking"
    ctx.states = res["states"]
    ctx.transitions = res["transitions"]
    ctx.traces = res["transitions"]
    ctx.part.sample({"deepest_history": [OPS[i] for i in res["deepest"]]})
    ctx.part.sample({"operations": OPS})
    ctx.rule = (
        "BFS to depth %d over %d closed operations (creation in every form, arithmetic, conversions, failing operations, copies, pickling) on posc with caches reset per history; "
        "after every step every quantity ever seen (results + database cache) is re-fingerprinted and the equality partition re-evaluated; non-trivial = histories with >= 3 tracked quantities; "
        "outcomes = distinct (operation, resolved key / exception)" % (depth, len(OPS))
    )
    ctx.coverage_extra = {
        "fixpoint": res["fixpoint"],
        "max_depth": res["depth"],
        "open_frontier": res["open_frontier"],
        "failed_operations": ctx.part.counters.get("failed_operations", 0),
        "alphabet": {"operations": len(OPS)},
    }
    ctx.assumptions = [
        "identity ('the identical object') is required of requests that go through the interning entry point; Quantity(category, unit) called directly allocates by construction and only needs == and equal hash",
        "state = content of the database's quantity cache (hash only); oracle = public getters, ==, hash, copy, pickle",
        "depth bound",
    ]
