"""
C13  Operations never mutate their operands; copies and pickles are equal.

Explicit-state search over histories of public operations on a pool of value objects of every class
and container kind (fresh pool per history).  A transition applies one operation to one or two pool
members and adds the result to the pool; chained histories: every later operation involves a result
or an operand of an earlier one (operations on disjoint objects share nothing but the database,
which is C15's subject).  After EVERY transition EVERY pool member and every caller-owned
container is compared with its snapshot at creation.
"""
import copy
import pickle

import numpy as np

from barril.basic.fraction import Fraction, FractionValue
from barril.units import Array, FixedArray, FractionScalar, GetUnknownQuantity, ObtainQuantity, Scalar

from .. import worlds
from ..par import chunks, run_sharded
from ..runner import Part

VALUE_CLASSES = (Scalar, Array, FractionScalar)


def deep(v):
    if isinstance(v, np.ndarray):
        return ("nd", str(v.dtype), deep(v.tolist()) if v.ndim else deep(v.item()))
    if isinstance(v, (list, tuple)):
        return (type(v).__name__,) + tuple(deep(x) for x in v)
    if isinstance(v, FractionValue):
        return ("FV", v.GetNumber(), deep(v.GetFraction()))
    if isinstance(v, Fraction):
        return ("F", v.numerator, v.denominator)
    if isinstance(v, np.generic):
        return ("npnum", type(v).__name__, deep(v.item()))
    if isinstance(v, float) and v != v:
        return "nan"
    return v


def qkey(q):
    return (q.GetCategory(), q.GetUnit(), q.GetQuantityType(), tuple((c, tuple(ue)) for c, ue in q.GetCategoryToUnitAndExps().items()), q.GetUnknownCaption())


def snap(o):
    """Everything the property names: value(s), unit, category, dimension, container contents and identity."""
    if isinstance(o, FixedArray):
        return ("FixedArray", deep(o._value), id(o._value), qkey(o.GetQuantity()), o.dimension)
    if isinstance(o, Array):
        return ("Array", deep(o._value), id(o._value), qkey(o.GetQuantity()))
    if isinstance(o, Scalar):
        return ("Scalar", type(o).__name__, o.value, qkey(o.GetQuantity()))
    if isinstance(o, FractionScalar):
        return ("FractionScalar", deep(o.value), id(o.value), id(o.value.GetFraction()), qkey(o.GetQuantity()))
    return ("plain", deep(o))


def public_snap(o):
    """The same through public getters only (used for the == / kind de-duplication of results)."""
    if isinstance(o, FixedArray):
        return ("FixedArray", deep(o.GetValues()), qkey(o.GetQuantity()), o.dimension)
    if isinstance(o, Array):
        return ("Array", deep(o.GetValues()), qkey(o.GetQuantity()))
    if isinstance(o, Scalar):
        return ("Scalar", o.GetValue(), qkey(o.GetQuantity()))
    if isinstance(o, FractionScalar):
        return ("FractionScalar", deep(o.GetValue()), qkey(o.GetQuantity()))
    return ("plain", deep(o))


def initial_pool():
    """-> (members: list of (name, object), owned: list of (name, caller-owned container))"""
    owned = []

    def own(name, c):
        owned.append((name, c))
        return c

    m = []
    m.append(("s_m", Scalar(2.5, "m", "length")))
    m.append(("s_cm_depth", Scalar(300.0, "cm", "depth")))
    m.append(("s_derived", Scalar(6.0, "m", "length") / Scalar(4.0, "s", "time")))
    m.append(("s_empty", Scalar.CreateEmptyScalar(3.0)))
    m.append(("s_unknown", Scalar(GetUnknownQuantity("cap"), 4.0)))
    m.append(("s_degC", Scalar(25.0, "degC", "temperature")))
    m.append(("a_list", Array(own("list of a_list", [1.0, 2.0, 3.0]), "cm", "length")))  # another unit than a_nd: products with results of a_nd need a conversion
    m.append(("a_tuple", Array(own("tuple of a_tuple", (4.0, 5.0, 6.0)), "cm", "depth")))
    m.append(("a_nd", Array(own("ndarray of a_nd", np.array([1.5, 2.5, 3.5])), "m", "length")))
    m.append(("a_lot", Array(own("list of tuples of a_lot", [(1.0, 2.0), (3.0, 4.0)]), "m", "length")))
    m.append(("a_derived", Array(own("list of a_derived(m)", [2.0, 4.0, 6.0]), "m", "length") / Array(own("list of a_derived(s)", [1.0, 2.0, 4.0]), "s", "time")))
    m.append(("a_len2", Array(own("list of a_len2", [7.0, 8.0]), "km", "length")))
    m.append(("f_list", FixedArray(3, own("list of f_list", [1.0, 2.0, 3.0]), "cm")))
    m.append(("f_tuple", FixedArray(3, "depth", own("tuple of f_tuple", (1.0, 2.0, 3.0)), "cm")))
    m.append(("f_nd", FixedArray(3, own("ndarray of f_nd", np.array([0.5, 1.5, 2.5])), "m")))
    m.append(("fs_frac", FractionScalar("length", own("FractionValue of fs_frac", FractionValue(5, own("Fraction of fs_frac", Fraction(1, 2)))), "in")))
    m.append(("fs_whole", FractionScalar(3.0, "m", "length")))
    m.append(("fs_degC", FractionScalar("temperature", own("FractionValue of fs_degC", FractionValue(5, (1, 2))), "degC")))
    return m, owned


def mixed_pool():
    """second pool (own pass): operands whose quantity holds two units of one type under two categories
    (only obtainable directly), with partners they can be added to and multiplied with"""
    from collections import OrderedDict

    from barril.units import Quantity

    owned = []

    def own(name, c):
        owned.append((name, c))
        return c

    mixq = lambda: Quantity.CreateDerived(OrderedDict([("length", ["m", 1]), ("depth", ["cm", 1])]))  # noqa: E731
    m = []
    m.append(("s_mix", Scalar(mixq(), 2.0)))
    m.append(("s_md", Scalar(2.5, "m", "length") * Scalar(1.0, "m", "depth")))
    m.append(("s_s", Scalar(4.0, "s", "time")))
    m.append(("s_cm", Scalar(300.0, "cm", "length")))
    m.append(("a_mix_list", Array(mixq(), own("list of a_mix_list", [2.0, 4.0, 6.0]))))
    m.append(("a_mix_nd", Array(mixq(), own("ndarray of a_mix_nd", np.array([1.0, 3.0, 5.0])))))
    m.append(("a_md_nd", Array(own("ndarray of a_md_nd(m)", np.array([1.0, 2.0, 3.0])), "m", "length") * Array(own("ndarray of a_md_nd(depth)", np.array([1.0, 1.0, 2.0])), "m", "depth")))
    m.append(("f_mix", FixedArray(3, mixq(), own("tuple of f_mix", (1.0, 2.0, 3.0)))))
    # a caption on a KNOWN unit and on a derived quantity (captions are part of equality)
    from barril.units import ObtainQuantity

    m.append(("s_cap", Scalar(ObtainQuantity("m", "length", "cable"), 2.0)))
    m.append(("f_cap_derived", FixedArray(3, Quantity.CreateDerived(OrderedDict([("length", ["m", 2])]), unknown_unit_caption="plate"), own("list of f_cap_derived", [1.0, 2.0, 3.0]))))
    return m, owned


ALT = {"length": "km", "time": "min", "temperature": "degF"}


def alt_unit(o):
    q = o.GetQuantity()
    if q.IsDerived():
        return q.GetUnit() if q.GetUnit() else None
    qt = q.GetQuantityType()
    u = ALT.get(qt)
    if u is None or u == q.GetUnit():
        return {"length": "mm", "time": "h", "temperature": "K"}.get(qt)
    return u


def _arr_value(o, scale=2.0):
    v = o.GetValues()
    if isinstance(v, np.ndarray):
        return v * scale
    if len(v) and isinstance(v[0], tuple):
        return type(v)(tuple(x * scale for x in t) for t in v)
    return type(v)(x * scale for x in v)


def unary_ops(o):
    """-> list of (name, thunk(o) -> result, expect) ; expect in {None, 'equal', 'identical', 'new'}"""
    ops = [
        ("str", lambda o: str(o), None),
        ("repr", lambda o: repr(o), None),
        ("copy.copy", lambda o: copy.copy(o), "equal"),
        ("copy.deepcopy", lambda o: copy.deepcopy(o), "equal"),
        ("Copy", lambda o: o.Copy(), "equal"),
        ("CreateCopy()", lambda o: o.CreateCopy(), "equal-new"),
        ("IsValid", lambda o: o.IsValid(), None),
        ("CheckValidity", lambda o: o.CheckValidity(), None),
        ("GetValidUnits", lambda o: o.GetValidUnits(), None),
        ("GetUnitName", lambda o: o.GetUnitName(), None),
        ("hash-or-not", lambda o: hash(o) if isinstance(o, Scalar) else None, None),
    ]
    u = alt_unit(o)
    if isinstance(o, Scalar):
        ops += [
            ("pickle", lambda o: pickle.loads(pickle.dumps(o)), "equal-new"),
            ("GetValue(alt)", lambda o: o.GetValue(u), None),
            ("GetFormatted(alt)", lambda o: o.GetFormatted(u), None),
            ("GetFormattedValue", lambda o: o.GetFormattedValue(), None),
            ("CreateCopy(unit=alt)", lambda o: o.CreateCopy(unit=u), "new"),
            ("CreateCopy(value=7)", lambda o: o.CreateCopy(value=7.0), "new"),
            ("x**2", lambda o: o**2, "new"),
            ("GetValueAndUnit", lambda o: o.GetValueAndUnit(), None),
        ]
    if isinstance(o, (Scalar, Array)):
        for name, f in (
            ("2*x", lambda o: 2.0 * o),
            ("x*2", lambda o: o * 2.0),
            ("x/2", lambda o: o / 2.0),
            ("2/x", lambda o: 2.0 / o),
            ("x+2", lambda o: o + 2.0),
            ("2+x", lambda o: 2.0 + o),
            ("x-2", lambda o: o - 2.0),
            ("2-x", lambda o: 2.0 - o),
            ("x//2", lambda o: o // 2.0),
            ("np.float64(2)*x", lambda o: np.float64(2.0) * o),
        ):
            ops.append((name, f, "new"))
    if isinstance(o, Array):
        ops += [
            ("GetValues(alt)", lambda o: o.GetValues(u), None),
            ("CreateCopy(unit=alt)", lambda o: o.CreateCopy(unit=u), "new"),
            ("CreateCopy(values=2*values)", lambda o: o.CreateCopy(values=_arr_value(o)), "new"),
            ("list(x)", lambda o: list(o), None),
            ("x[0]", lambda o: o[0], None),
            ("len", lambda o: len(o), None),
            ("x*ndarray", lambda o: o * np.arange(1.0, len(o) + 1.0), "new"),
            ("ndarray+x", lambda o: np.arange(1.0, len(o) + 1.0) + o, "new"),
        ]
    if isinstance(o, FixedArray):
        ops += [
            ("pickle", lambda o: pickle.loads(pickle.dumps(o)), "equal-new"),
            ("ChangingIndex(1, 9.0)", lambda o: o.ChangingIndex(1, 9.0), "new"),
            ("ChangingIndex(0, Scalar(1,'cm'))", lambda o: o.ChangingIndex(0, Scalar(1.0, "cm", "length")), "new"),
            ("ChangingIndex(0, Scalar(1,'cm'), use_value_unit=False)", lambda o: o.ChangingIndex(0, Scalar(1.0, "cm", "length"), use_value_unit=False), "new"),
            ("ChangingIndex(-1, (5.0,'km'))", lambda o: o.ChangingIndex(-1, (5.0, "km")), "new"),
            ("IndexAsScalar(1)", lambda o: o.IndexAsScalar(1), "new"),
            ("IndexAsScalar(0, quantity(km))", lambda o: o.IndexAsScalar(0, ObtainQuantity("km", o.GetCategory())), "new"),
        ]
    if isinstance(o, FractionScalar):
        ops += [
            ("GetValue(alt)", lambda o: o.GetValue(u), None),
            ("GetFormatted(alt)", lambda o: o.GetFormatted(u), None),
            ("ConvertFractionValue", lambda o: FractionScalar.ConvertFractionValue(o.GetValue(), o.GetQuantity(), o.GetUnit(), u), None),
            ("ConvertFractionValue(by type name)", lambda o: FractionScalar.ConvertFractionValue(o.GetValue(), o.GetQuantityType(), o.GetUnit(), u), None),
            ("CreateCopy(unit=alt)", lambda o: o.CreateCopy(unit=u), "new"),
            ("float(value)", lambda o: float(o.GetValue()), None),
            ("GetValueAndUnit", lambda o: o.GetValueAndUnit(), None),
            ("copy.copy(value)", lambda o: copy.copy(o.GetValue()), None),
        ]
    return ops


BIN = [
    ("+", lambda a, b: a + b),
    ("-", lambda a, b: a - b),
    ("*", lambda a, b: a * b),
    ("/", lambda a, b: a / b),
    ("//", lambda a, b: a // b),
]
CMP = [
    ("<", lambda a, b: a < b),
    ("<=", lambda a, b: a <= b),
    (">", lambda a, b: a > b),
    (">=", lambda a, b: a >= b),
    ("==", lambda a, b: a == b),
    ("!=", lambda a, b: a != b),
]


def binary_ops(a, b):
    ops = []
    both_scalar = isinstance(a, Scalar) and isinstance(b, Scalar)
    both_array = isinstance(a, Array) and isinstance(b, Array)
    both_fs = isinstance(a, FractionScalar) and isinstance(b, FractionScalar)
    if both_scalar or both_array:
        ops += [(n, f, "new") for n, f in BIN]
    if both_scalar or both_fs:
        ops += [(n, f, None) for n, f in CMP]
    elif both_array:
        ops += [(n, f, None) for n, f in CMP[4:]]
    if isinstance(a, FixedArray) and isinstance(b, Scalar):
        ops.append(("a.ChangingIndex(1, b)", lambda a, b: a.ChangingIndex(1, b), "new"))
        ops.append(("a.IndexAsScalar(2, b.quantity)", lambda a, b: a.IndexAsScalar(2, b.GetQuantity()), "new"))
    return ops


class History:
    """One history executed on a fresh pool."""

    def __init__(self, pool=None):
        self.members, self.owned = (pool or initial_pool)()
        self.snaps = [snap(o) for _n, o in self.members]
        self.owned_snaps = [deep(c) for _n, c in self.owned]
        self.steps = []

    def step(self, part, opname, f, args, expect):
        """args: indices into members; returns index of the result in the pool or None."""
        objs = [self.members[i][1] for i in args]
        names = [self.members[i][0] for i in args]
        desc = "%s(%s)" % (opname, ", ".join(names))
        self.steps.append(desc)
        sig = "C13:" + " ; ".join(self.steps)
        try:
            r = f(*objs)
            err = None
        except Exception as e:
            r, err = None, e
        if part is not None:
            part.count("evaluations")
            part.add("outcomes", (opname, type(err).__name__ if err else type(r).__name__))
            if err is not None:
                part.count("failed_operations")
            # every pool member and every caller-owned container unchanged
            for (n, o), s0 in zip(self.members, self.snaps):
                s1 = snap(o)
                if s1 != s0:
                    part.violation(sig + " :: pool member %s changed" % n, {"before": s0, "after": s1, "raised": repr(err)}, self.snippet())
                    return None
            for (n, c), s0 in zip(self.owned, self.owned_snaps):
                if deep(c) != s0:
                    part.violation(sig + " :: caller-owned %s changed" % n, {"before": s0, "after": deep(c)}, self.snippet())
                    return None
            if err is None and expect:
                src = objs[0]
                if "equal" in expect:
                    try:
                        unequal = not (r == src) or (r != src)
                    except Exception:
                        # == raising is C08's subject (and only arises for 2-d containers here)
                        part.count("equality_raised")
                        unequal = False
                    if unequal:
                        part.violation(sig + " :: copy is not equal to the original", {"original": repr(src), "copy": repr(r)}, self.snippet())
                        return None
                if "new" in expect and isinstance(r, VALUE_CLASSES) and any(r is o for o in objs):
                    part.violation(sig + " :: result is an operand, not a new object", {"result": repr(r)}, self.snippet())
                    return None
        if err is None and isinstance(r, VALUE_CLASSES) and not any(r is o for _n, o in self.members):
            self.members.append(("r%d" % len(self.steps), r))
            self.snaps.append(snap(r))
            return len(self.members) - 1
        return None

    def snippet(self):
        return "import sys\nfrom mc.props import c13\nsys.exit(c13.replay(%r))\n" % (self.steps,)


def enumerate_ops(h, involve=None, partners=None):
    """All (opname, f, args, expect) applicable to the pool of history h.  involve: set of member
    indices at least one of which must take part; partners: indices allowed as the other operand."""
    n = len(h.members)
    out = []
    for i in range(n):
        if involve is not None and i not in involve:
            continue
        for name, f, exp in unary_ops(h.members[i][1]):
            out.append((name, f, (i,), exp))
    for i in range(n):
        for j in range(n):
            if involve is not None and i not in involve and j not in involve:
                continue
            if partners is not None and not ((i in involve and j in partners) or (j in involve and i in partners) or (i in involve and j in involve)):
                continue
            for name, f, exp in binary_ops(h.members[i][1], h.members[j][1]):
                out.append((name, f, (i, j), exp))
    return out


def _run_prefix(prefix):
    """prefix: list of (opname, args) -> History after executing it without judging."""
    h = History()
    for opname, args in prefix:
        for name, f, a, exp in enumerate_ops(h, involve=set(args)):
            if name == opname and a == tuple(args):
                h.step(None, name, f, a, exp)
                break
        else:
            raise RuntimeError("prefix op %r%r not applicable" % (opname, args))
    return h


N0 = 18
# first operations whose results may alias their source (containers handed on by reference): only
# these are extended to a third chained operation in the thorough tier
DEEP_FIRST = {"CreateCopy()", "copy.copy", "copy.deepcopy", "CreateCopy(unit=alt)", "pickle", "ChangingIndex(1, 9.0)", "x*2", "CreateCopy(values=2*values)", "GetValues(alt)"}
REP = [0, 1, 2, 6, 8, 12, 15]  # partner representatives for chained binary operations


def _task(task):
    if task[0] == "mixed":
        return _mixed_task(task[1])
    depth, firsts = task
    part = Part()
    with worlds.world("posc"):
        for opname, args in firsts:
            # level 1: judged on a fresh pool
            h = _run_prefix([])
            ops1 = [o for o in enumerate_ops(h, involve=set(args)) if o[0] == opname and o[2] == tuple(args)]
            name, f, a, exp = ops1[0]
            r1 = h.step(part, name, f, a, exp)
            part.count("transitions")
            if depth < 2:
                continue
            # level 2: operations that involve the result or the operands of the first
            involve = set(args) | ({r1} if r1 is not None else set())
            probe = _run_prefix([(opname, args)])
            partners = (set(range(N0)) if depth >= 3 else set(REP)) | involve
            second = [(n2, a2) for n2, _f2, a2, _e2 in enumerate_ops(probe, involve=involve, partners=partners)]
            for n2, a2 in second:
                h2 = _run_prefix([(opname, args)])
                for name2, f2, aa2, exp2 in enumerate_ops(h2, involve=set(a2)):
                    if name2 == n2 and aa2 == a2:
                        r2 = h2.step(part, name2, f2, aa2, exp2)
                        part.count("transitions")
                        part.count("chained")
                        break
                if depth >= 3 and r2 is not None and opname in DEEP_FIRST:
                    inv3 = {r2}
                    third = [(n3, a3) for n3, _f3, a3, _e3 in enumerate_ops(h2, involve=inv3, partners=set(a2) | set(args) | inv3)]
                    for n3, a3 in third:
                        h3 = _run_prefix([(opname, args), (n2, a2)])
                        for name3, f3, aa3, exp3 in enumerate_ops(h3, involve=set(a3)):
                            if name3 == n3 and aa3 == a3:
                                h3.step(part, name3, f3, aa3, exp3)
                                part.count("transitions")
                                part.count("chained")
                                break
            part.sample({"history": list(h.steps)}, cap=2)
    return part


def _mixed_task(shard):
    """Every history of length <= 2 on the second (mixed-unit) pool, no partner restriction."""
    part = Part()
    k, nshards = shard
    with worlds.world("posc"):
        h0 = History(mixed_pool)
        firsts = [(n, a) for n, _f, a, _e in enumerate_ops(h0)][k::nshards]
        for opname, args in firsts:
            h = History(mixed_pool)
            ops1 = [o for o in enumerate_ops(h, involve=set(args)) if o[0] == opname and o[2] == tuple(args)]
            name, f, a, exp = ops1[0]
            r1 = h.step(part, name, f, a, exp)
            part.count("transitions")
            part.count("mixed_pool_transitions")
            involve = set(args) | ({r1} if r1 is not None else set())
            seconds = [(n2, a2) for n2, _f2, a2, _e2 in enumerate_ops(h, involve=involve)]
            for n2, a2 in seconds:
                h2 = History(mixed_pool)
                for name1, f1, aa1, exp1 in enumerate_ops(h2, involve=set(args)):
                    if name1 == opname and aa1 == tuple(args):
                        h2.step(None, name1, f1, aa1, exp1)
                        break
                for name2, f2, aa2, exp2 in enumerate_ops(h2, involve=set(a2)):
                    if name2 == n2 and aa2 == a2:
                        h2.step(part, name2, f2, aa2, exp2)
                        part.count("transitions")
                        part.count("chained")
                        part.count("mixed_pool_transitions")
                        break
    return part


def replay(steps):
    """steps: ['op(name, name)', ...] as printed in a signature."""
    part = Part()
    with worlds.world("posc"):
        h = History()
        for desc in steps:
            opname, rest = desc.rsplit("(", 1) if not desc.endswith("))") else (desc[: desc.rindex("(", 0, desc.rindex("("))], None)
            # robust parse: operand names never contain '(' -> split at the last '(' that opens the operand list
            k = len(desc) - 1
            depth = 0
            while k >= 0:
                if desc[k] == ")":
                    depth += 1
                elif desc[k] == "(":
                    depth -= 1
                    if depth == 0:
                        break
                k -= 1
            opname, names = desc[:k], [x.strip() for x in desc[k + 1 : -1].split(",")]
            idx = tuple([n for n, _o in h.members].index(x) for x in names)
            for name, f, a, exp in enumerate_ops(h, involve=set(idx)):
                if name == opname and a == idx:
                    h.step(part, name, f, a, exp)
                    break
            print(desc, "| pool:", len(h.members))
    for v in part.violations:
        print("MISMATCH", v["signature"], v["detail"])
    return 1 if part.violations else 0


def run(ctx):
    depth = 3 if ctx.thorough else 2
    with worlds.world("posc"):
        h = History()
        assert len(h.members) == N0
        firsts = [(name, a) for name, _f, a, _e in enumerate_ops(h)]
        kinds = sorted({name for name, _a in firsts})
    run_sharded(ctx, _task, [(depth, c) for c in chunks(firsts, ctx.procs * 6)] + [("mixed", (k, 24)) for k in range(24)])
    c = ctx.part.counters
    ctx.level = "model_checking"
    ctx.states = len(firsts) + c.get("chained", 0)
    ctx.transitions = c.get("transitions", 0)
    ctx.traces = ctx.transitions
    ctx.nontrivial = c.get("chained", 0)
    ctx.rule = (
        "all histories of length <= %d of public operations on a fresh pool of %d value objects (+ %d caller-owned containers), later operations chained to results/operands of earlier ones; "
        "a second pool of 8 objects whose quantity holds two units of one quantity type (and partners) explored to depth 2 without partner restriction; after every transition every pool member and container is compared with its snapshot; non-trivial = transitions that operate on a result or operand of an earlier step; outcomes = distinct (operation, result class / exception)"
        % (depth, N0, len(h.owned))
    )
    ctx.coverage_extra = {"max_depth": depth, "first_level_operations": len(firsts), "operation_kinds": kinds, "failed_operations": c.get("failed_operations", 0), "alphabet": {"pool": [n for n, _o in h.members], "owned_containers": [n for n, _c in h.owned]}}
    ctx.assumptions = [
        "operations on disjoint objects commute (they share only the database, judged by C15), so only chained histories are enumerated",
        "Array and FractionScalar pickling is outside the property (the instances hold the database)",
        "snapshots read the private _value only to record container identity and raw contents; verdicts about equality use ==",
    ]
