"""
C10  Array results equal element-wise Scalar results for every container kind.

Input space (complete product):
  (1) operations: every ordered pair of quantities of a pool (quick: 8 atoms + 10 derived; thorough: every
      state of the depth-2 derived-quantity graph, 101 states) x {+ - * / //} x 9 container
      combinations (list/tuple/ndarray on each side) x every length pair (n, m) in 0..3 x 0..3.
      Oracle (differential against the implementation's own Scalar path, judged by C03/C04):
        n == m : result[i] == (Scalar(a[i]) op Scalar(b[i])).value, result quantity == the Scalar result's
                 quantity, the Array op raises exactly when the Scalar op raises;
        n != m : the operation must raise (never return a truncated / padded result).
      Recorded class D15 (numpy broadcast of an ndarray operand of length <= 1) is attributed only when
      the result equals the numpy broadcast of the Scalar-wise expectation.
  (2) conversions: Array(values, u, c).GetValues(v)[i] == Scalar(values[i], u, c).GetValue(v) for every
      container kind (incl. list of tuples), every length 0..3, every ordered unit pair of the basis
      types (quick) / of every quantity type (thorough); derived arrays asked for their own unit.
  (3) Array.FromScalars over every sequence of length 0..3 of 5 Scalars (mixed units and categories of
      one type) x unit in {None, m, cm, km} x category in {None, length, depth}: element i equals
      s[i].GetValue(unit) and denotes the original amount.
"""
import itertools
import math

import numpy as np

from barril.units import Array, Scalar

from .. import algebra, worlds
from ..par import run_sharded
from ..ref.dims import Model, NotAffine, close
from ..runner import Part

OPS = ["+", "-", "*", "/", "//"]
KINDS = ["list", "tuple", "ndarray"]
VA = [6.0, -7.5, 13.0]
VB = [2.0, 0.25, -1.5]
DERIVED = [
    (0, ("*", 0)),  # m*m
    (0, ("*", 1)),  # m*cm
    (1, ("*", 1)),  # cm*cm
    (0, ("/", 4)),  # m/s
    (1, ("/", 5)),  # cm/min
    (2, ("/", 4)),  # depth m / s
    (6, ("*", 0)),  # kg*m
    (7, ("/", 1)),  # g/cm
    (4, ("*", 5)),  # s*min
    (3, ("*", 0)),  # km(depth)*m(length)
]


def _apply(op, a, b):
    if op == "+":
        return a + b
    if op == "-":
        return a - b
    if op == "*":
        return a * b
    if op == "/":
        return a / b
    return a // b


def _mk(kind, vals):
    if kind == "list":
        return list(vals)
    if kind == "tuple":
        return tuple(vals)
    return np.array(vals, dtype=float)


def _mkexpr(kind, vals):
    return {"list": "%r", "tuple": "tuple(%r)", "ndarray": "np.array(%r)"}[kind] % (list(vals),)


def pool(db, thorough):
    states, _t = algebra.explore(db, 2)
    if thorough:
        return [st.history for st in states]
    hs = [(i,) for i in range(len(algebra.BASIS))] + [tuple(h) for h in DERIVED]
    return hs


def _elem_ok(op, got, want):
    if got == want:
        return True
    if isinstance(want, float) and (math.isnan(want) or math.isinf(want)):
        return repr(float(got)) == repr(want)
    if abs(got - want) <= 1e-12 * max(abs(want), abs(got)):
        return True
    return False


def _ops_task(task):
    thorough, shard, nshards = task
    part = Part()
    with worlds.world("posc") as db:
        hs = pool(db, thorough)
        scal = [algebra.replay(h, algebra.BASIS, algebra.PRIMES) for h in hs]
        quants = [s.GetQuantity() for s in scal]
        names = [algebra.describe(h) for h in hs]
        exprs = ["(%s).GetQuantity()" % algebra.expr(h) for h in hs]
        for ia in range(len(hs)):
            if ia % nshards != shard:
                continue
            qa = quants[ia]
            for ib in range(len(hs)):
                qb = quants[ib]
                part.count("quantity_pairs")
                refs = {}
                for op in OPS:
                    # the Scalar reference, element by element
                    ref = []
                    ref_exc = None
                    for i in range(3):
                        try:
                            r = _apply(op, Scalar.CreateWithQuantity(qa, VA[i]), Scalar.CreateWithQuantity(qb, VB[i]))
                            ref.append(r)
                        except Exception as e:
                            ref_exc = e
                            break
                    refs[op] = (ref, ref_exc)
                    if ref_exc is None:
                        part.add("nontrivial", (ia, ib, op))
                    for ka in KINDS:
                        for kb in KINDS:
                            for n in range(4):
                                for m in range(4):
                                    part.count("evaluations")
                                    sig = "C10:op:%s[%s,%d] %s %s[%s,%d]" % (names[ia], ka, n, op, names[ib], kb, m)
                                    snippet = (
                                        "import numpy as np\nfrom mc import worlds\nfrom barril.units import *\n"
                                        "with worlds.world('posc'):\n    a = Array.CreateWithQuantity(%s, %s)\n    b = Array.CreateWithQuantity(%s, %s)\n"
                                        "    try:\n        r = a %s b\n    except Exception as e:\n        print('raised', repr(e)); r = None\n"
                                        "    ref = None\n    try:\n        ref = [Scalar.CreateWithQuantity(a.GetQuantity(), x) %s Scalar.CreateWithQuantity(b.GetQuantity(), y) for x, y in zip(a.values, b.values)]\n    except Exception as e:\n        print('scalar path raised', repr(e))\n"
                                        "    print(r, ref)\n"
                                        "    if len(a) != len(b): assert r is None, 'operands of different lengths accepted'\n"
                                        "    elif ref is None: assert r is None\n"
                                        "    else: assert r is not None and [float(v) for v in r.values] == [s.value for s in ref] and all(r.GetQuantity() == s.GetQuantity() for s in ref)\n"
                                        % (exprs[ia], _mkexpr(ka, VA[:n]), exprs[ib], _mkexpr(kb, VB[:m]), op, op)
                                    )
                                    a = Array.CreateWithQuantity(qa, _mk(ka, VA[:n]))
                                    b = Array.CreateWithQuantity(qb, _mk(kb, VB[:m]))
                                    try:
                                        r = _apply(op, a, b)
                                        exc = None
                                    except Exception as e:
                                        r, exc = None, e
                                    if n != m:
                                        if exc is None:
                                            # D15: numpy broadcasting of an ndarray operand of length <= 1
                                            model = None
                                            if "ndarray" in (ka, kb) and min(n, m) <= 1 and ref_exc is None:
                                                L = 0 if min(n, m) == 0 else max(n, m)
                                                try:
                                                    exp = [
                                                        _apply(op, Scalar.CreateWithQuantity(qa, VA[i if n > 1 else 0]), Scalar.CreateWithQuantity(qb, VB[i if m > 1 else 0])).value
                                                        for i in range(L)
                                                    ]
                                                    got = [float(v) for v in r.values]
                                                    if len(got) == L and all(_elem_ok(op, g, w) for g, w in zip(got, exp)) and r.GetQuantity() == ref[0].GetQuantity():
                                                        model = "numpy-broadcast-length-1"
                                                except Exception:
                                                    pass
                                            part.add("outcomes", ("mismatch-accepted", model))
                                            part.violation(sig + ":different lengths accepted", {"result": repr(r)}, snippet, model=model)
                                        else:
                                            part.add("outcomes", ("mismatch-rejected", type(exc).__name__))
                                            part.count("length_mismatch_rejected")
                                        continue
                                    if ref_exc is not None:
                                        if exc is None:
                                            part.violation(sig + ":Array accepted what Scalar rejects", {"result": repr(r), "scalar": repr(ref_exc)}, snippet)
                                        part.add("outcomes", ("both-reject",))
                                        continue
                                    if exc is not None:
                                        part.violation(sig + ":Array raised where Scalar works", {"error": repr(exc)}, snippet)
                                        part.add("outcomes", ("array-raised", type(exc).__name__))
                                        continue
                                    if type(r) is not Array:
                                        part.violation(sig + ":result type", {"type": type(r).__name__}, snippet)
                                        continue
                                    if not (r.GetQuantity() == ref[0].GetQuantity()):
                                        part.violation(sig + ":quantity differs from the Scalar result", {"array": repr(r.GetQuantity()), "scalar": repr(ref[0].GetQuantity())}, snippet)
                                        continue
                                    try:
                                        got = [float(v) for v in r.values]
                                    except Exception as e:
                                        part.violation(sig + ":values unreadable", {"error": repr(e)}, snippet)
                                        continue
                                    if len(got) != n or not all(_elem_ok(op, g, s.value) for g, s in zip(got, ref)):
                                        part.violation(sig + ":values differ from the Scalar results", {"array": got, "scalars": [s.value for s in ref[:n]]}, snippet)
                                        continue
                                    part.add("outcomes", ("equal", type(r.values).__name__))
                # the SAME operand objects through a sequence of operations (a result must not depend on
                # what the operands were used for before)
                for ka in KINDS:
                    for kb in KINDS:
                        a = Array.CreateWithQuantity(qa, _mk(ka, VA))
                        b = Array.CreateWithQuantity(qb, _mk(kb, VB))
                        done = []
                        for op in ("*", "/", "+", "-", "//", "*", "+"):
                            part.count("evaluations")
                            done.append(op)
                            ref, ref_exc = refs[op]
                            try:
                                r = _apply(op, a, b)
                            except Exception as e:
                                if ref_exc is None:
                                    part.violation("C10:reused operands:%s[%s] , %s[%s]: %s:raised" % (names[ia], ka, names[ib], kb, " then ".join(done)), {"error": repr(e)})
                                    break
                                continue
                            if ref_exc is not None:
                                part.violation("C10:reused operands:%s[%s] , %s[%s]: %s:accepted what Scalar rejects" % (names[ia], ka, names[ib], kb, " then ".join(done)), {"result": repr(r)})
                                break
                            got = [float(v) for v in r.values]
                            if not (r.GetQuantity() == ref[0].GetQuantity()) or len(got) != 3 or not all(_elem_ok(op, g, x.value) for g, x in zip(got, ref)):
                                part.violation(
                                    "C10:reused operands:%s[%s] , %s[%s]: %s:differs from the Scalar results" % (names[ia], ka, names[ib], kb, " then ".join(done)),
                                    {"array": got, "scalars": [x.value for x in ref], "a_now": repr(a), "b_now": repr(b)},
                                    "import numpy as np\nfrom mc import worlds\nfrom barril.units import *\nwith worlds.world('posc'):\n    a = Array.CreateWithQuantity(%s, %s)\n    b = Array.CreateWithQuantity(%s, %s)\n    for op in %r:\n        r = eval('a %%s b' %% op)\n    ref = [eval('x %%s y' %% op) for x, y in zip([Scalar.CreateWithQuantity(a.GetQuantity(), v) for v in %r], [Scalar.CreateWithQuantity(b.GetQuantity(), v) for v in %r])]\n    print(r, ref)\n    assert [float(v) for v in r.values] == [x.value for x in ref]\n"
                                    % (exprs[ia], _mkexpr(ka, VA), exprs[ib], _mkexpr(kb, VB), done, VA, VB),
                                )
                                break
                            part.add("outcomes", ("reused", op))
            if ia == 9:
                part.sample({"a": names[ia], "b": names[0], "ops": OPS, "containers": KINDS, "lengths": "0..3 x 0..3", "values_a": VA, "values_b": VB})
    return part


TUPLES = [[(1.0, 2.0), (3.0, 4.0)], ((1.0, -2.5), (0.0, 4.0))]


def _conv_task(qts):
    part = Part()
    vals = [1.5, -2.25, 1e3]
    with worlds.world("posc") as db:
        for qt in qts:
            units = db.GetUnits(qt)
            for u in units:
                c = db.GetDefaultCategory(u)
                if not c:
                    continue
                for v in units:
                    refs = [Scalar(x, u, c).GetValue(v) for x in vals]
                    part.count("unit_pairs")
                    if u != v:
                        part.add("nontrivial", (u, v))
                    for kind in KINDS:
                        for n in range(4):
                            part.count("evaluations")
                            a = Array(_mk(kind, vals[:n]), u, c)
                            sig = "C10:GetValues:%s:%s->%s:%s len %d" % (qt, u, v, kind, n)
                            snippet = (
                                "import numpy as np\nfrom mc import worlds\nfrom barril.units import *\nwith worlds.world('posc'):\n"
                                "    a = Array(%s, %r, %r)\n    got = list(a.GetValues(%r))\n    ref = [Scalar(x, %r, %r).GetValue(%r) for x in a.values]\n    print(got, ref)\n    assert [float(g) for g in got] == ref\n"
                                % (_mkexpr(kind, vals[:n]), u, c, v, u, c, v)
                            )
                            try:
                                got = a.GetValues(v)
                                gl = [float(g) for g in got]
                            except Exception as e:
                                part.violation(sig + ":raised", {"error": repr(e)}, snippet)
                                continue
                            if gl != refs[:n]:
                                part.violation(sig + ":differs from Scalar.GetValue", {"array": gl, "scalars": refs[:n]}, snippet)
                            elif n and kind != "tuple" and got is not a.GetValues():
                                # the answer belongs to the caller: edit it in place and ask again
                                for i in range(n):
                                    got[i] = -777.0
                                again = [float(g) for g in a.GetValues(v)]
                                part.count("evaluations")
                                if again != refs[:n] or [float(x) for x in a.GetValues()] != vals[:n]:
                                    part.violation(sig + ":second answer follows the caller's edit of the first", {"array": again, "scalars": refs[:n]},
                                                   snippet.replace("    got = list(a.GetValues(%r))" % v, "    first = a.GetValues(%r)\n    for i in range(len(first)): first[i] = -777.0\n    got = list(a.GetValues(%r))" % (v, v)))
                            if kind != "ndarray" and type(got) is not type(a.values) and n:
                                part.violation(sig + ":container kind changed", {"got": type(got).__name__}, snippet)
                            part.add("outcomes", ("conv", kind, n, gl == refs[:n]))
                    for t in TUPLES:
                        part.count("evaluations")
                        a = Array(t, u, c)
                        try:
                            got = a.GetValues(v)
                            ok = [tuple(float(x) for x in e) for e in got] == [tuple(Scalar(x, u, c).GetValue(v) for x in e) for e in t]
                        except Exception as e:
                            part.violation("C10:GetValues:%s:%s->%s:%s of tuples:raised" % (qt, u, v, type(t).__name__), {"error": repr(e)})
                            continue
                        if not ok:
                            part.violation("C10:GetValues:%s:%s->%s:%s of tuples:differs from Scalar.GetValue" % (qt, u, v, type(t).__name__), {"got": repr(got)})
    return part


def _derived_own_unit(part, db):
    states, _t = algebra.explore(db, 3)
    for st in states:
        q = st.scalar.GetQuantity()
        for kind in KINDS:
            for n in range(4):
                part.count("evaluations")
                a = Array.CreateWithQuantity(q, _mk(kind, VA[:n]))
                try:
                    got = [float(x) for x in a.GetValues(q.GetUnit())]
                except Exception as e:
                    part.violation("C10:GetValues:own unit:%s:%s len %d:raised" % (algebra.describe(st.history), kind, n), {"error": repr(e)})
                    continue
                if got != VA[:n]:
                    part.violation("C10:GetValues:own unit:%s:%s len %d:changed" % (algebra.describe(st.history), kind, n), {"got": got})


FS_ATOMS = [(1.0, "m", "length"), (250.0, "cm", "length"), (0.5, "km", "depth"), (-3.0, "m", "depth"), (7.0, "cm", "depth")]


def _from_scalars(part, db):
    model = Model(db)
    for n in range(4):
        for seq in itertools.product(range(len(FS_ATOMS)), repeat=n):
            for unit in (None, "m", "cm", "km"):
                for category in (None, "length", "depth"):
                    for as_iter in (False, True):
                        part.count("evaluations")
                        scalars = [Scalar(*FS_ATOMS[i]) for i in seq]
                        sig = "C10:FromScalars:%s unit=%s category=%s%s" % ([FS_ATOMS[i] for i in seq], unit, category, " (generator)" if as_iter else "")
                        snippet = (
                            "from mc import worlds\nfrom barril.units import *\nwith worlds.world('posc'):\n    s = [Scalar(*t) for t in %r]\n    a = Array.FromScalars(s, unit=%r, category=%r)\n"
                            "    u = a.GetUnit()\n    print(a, [x.GetValue(u) for x in s])\n    assert list(a.values) == [x.GetValue(u) for x in s]\n" % ([FS_ATOMS[i] for i in seq], unit, category)
                        )
                        try:
                            a = Array.FromScalars(iter(scalars) if as_iter else scalars, unit=unit, category=category)
                        except Exception as e:
                            if n == 0:
                                # no amounts to return: a rejected empty request is not judged (the
                                # category-only form is documented to raise)
                                part.add("outcomes", ("fromscalars-empty-rejected", unit is None, category is None))
                                part.count("fromscalars_empty_rejected")
                                continue
                            part.violation(sig + ":raised", {"error": repr(e)}, snippet)
                            continue
                        if n == 0:
                            ok = len(a) == 0 and (unit is None or a.GetUnit() == unit) and (category is None or a.GetCategory() == category)
                            if not ok:
                                part.violation(sig + ":empty result wrong", {"got": repr(a)}, snippet)
                            part.add("outcomes", ("fromscalars-empty", unit is None, category is None))
                            continue
                        eu = unit or scalars[0].GetUnit()
                        ec = category or scalars[0].GetCategory()
                        if a.GetUnit() != eu or a.GetCategory() != ec or len(a) != n:
                            part.violation(sig + ":unit/category/length", {"got": repr(a), "category": a.GetCategory()}, snippet)
                            continue
                        for i, s in enumerate(scalars):
                            if a[i] != s.GetValue(eu):
                                part.violation(sig + ":element %d differs from GetValue" % i, {"got": a[i], "want": s.GetValue(eu)}, snippet)
                                break
                            back = model.tobase(eu, a[i])
                            orig = model.tobase(s.GetUnit(), s.GetValue())
                            if not close(back, orig, abs(orig), 1e-12):
                                part.violation(sig + ":element %d is another amount" % i, {"got_base": float(back), "orig_base": float(orig)}, snippet)
                                break
                        if len({FS_ATOMS[i][1] for i in seq}) > 1:
                            part.add("nontrivial", ("fs", seq, unit, category))
                        part.add("outcomes", ("fromscalars", n))


def _int_ndarrays(part, db):
    """An integer-dtype ndarray on one side, fractional amounts in a list / tuple / float ndarray on the other
    (and the other way round): elements equal the Scalar results - nothing is coerced to the integer dtype."""
    hs = pool(db, False)
    ints = [6, -7, 13]
    fracs = [2.0, 0.25, -1.5]
    for ha in hs[:12]:
        for hb in hs[:12]:
            qa = algebra.replay(ha, algebra.BASIS, algebra.PRIMES).GetQuantity()
            qb = algebra.replay(hb, algebra.BASIS, algebra.PRIMES).GetQuantity()
            for op in OPS:
                for dtype in (np.int64, np.int32):
                    for kb in KINDS:
                        for int_left in (True, False):
                            part.count("evaluations")
                            part.count("int_ndarray_operands")
                            ia = Array.CreateWithQuantity(qa if int_left else qb, np.array(ints, dtype=dtype))
                            fb = Array.CreateWithQuantity(qb if int_left else qa, _mk(kb, fracs))
                            a, b = (ia, fb) if int_left else (fb, ia)
                            try:
                                ref = [_apply(op, Scalar.CreateWithQuantity(a.GetQuantity(), float(x)), Scalar.CreateWithQuantity(b.GetQuantity(), float(y))) for x, y in zip(a.values, b.values)]
                            except Exception:
                                ref = None
                            try:
                                r = _apply(op, a, b)
                            except Exception as e:
                                r = e
                            sig = "C10:int-ndarray:%s[%s] %s %s[%s]" % (algebra.describe(ha), ("ndarray %s" % dtype.__name__) if int_left else kb, op, algebra.describe(hb), kb if int_left else ("ndarray %s" % dtype.__name__))
                            if ref is None:
                                if not isinstance(r, Exception):
                                    part.violation(sig + ":accepted what the Scalar path rejects", {"result": repr(r)})
                                continue
                            if isinstance(r, Exception):
                                part.violation(sig + ":raised", {"error": repr(r)})
                                continue
                            vals = [float(v) for v in r.values]
                            if len(vals) != 3 or not all(_elem_ok(op, g, w.value) for g, w in zip(vals, ref)) or r.GetQuantity() != ref[0].GetQuantity():
                                part.violation(sig + ":values differ from the Scalar results", {"got": vals, "scalars": [w.value for w in ref], "quantity": repr(r.GetQuantity())})


def _long_operands(part, db):
    """Operands of 255, 256 and 300 values (list, tuple, ndarray, mixed): element by element what the Scalars give;
    python ints that do not fit 64 bits stay exact (multiples of 2**31, so that the Scalar reference is exact)."""
    for n in (255, 256, 300):
        for ka, kb in (("list", "list"), ("tuple", "tuple"), ("list", "tuple"), ("ndarray", "list")):
            for va, vb, ua, ub in (([3 * 2**31 + 0] * n, [5 * 2**31] * n, "m", "m"), ([1.5 + i for i in range(n)], [0.25 * (i + 1) for i in range(n)], "m", "cm")):
                if ka == "ndarray" and isinstance(va[0], int):
                    continue
                for op in OPS:
                    part.count("evaluations")
                    part.count("long_operand_operations")
                    a = Array(_mk(ka, va) if ka == "ndarray" else (list(va) if ka == "list" else tuple(va)), ua, "length")
                    b = Array(list(vb) if kb == "list" else tuple(vb), ub, "length")
                    sig = "C10:long operands (%d values, %s %s %s, %s):%s %s %s" % (n, ka, op, kb, type(va[0]).__name__, ua, op, ub)
                    try:
                        r = _apply(op, a, b)
                        ref = [_apply(op, Scalar(float(x), ua, "length"), Scalar(float(y), ub, "length")) for x, y in ((va[0], vb[0]), (va[-1], vb[-1]), (va[n // 2], vb[n // 2]))]
                    except Exception as e:
                        part.violation(sig + ":raised", {"error": repr(e)})
                        continue
                    got = [float(r.values[0]), float(r.values[-1]), float(r.values[n // 2])]
                    if len(r.values) != n or not all(_elem_ok(op, g, w.value) for g, w in zip(got, ref)) or r.GetQuantity() != ref[0].GetQuantity():
                        part.violation(sig + ":values differ from the Scalar results", {"got_first_last_middle": got, "scalars": [w.value for w in ref]})


def _task(task):
    if task[0] == "ops":
        return _ops_task(task[1])
    if task[0] == "conv":
        return _conv_task(task[1])
    part = Part()
    with worlds.world("posc") as db:
        if task[0] == "own":
            _derived_own_unit(part, db)
        elif task[0] == "ints":
            _int_ndarrays(part, db)
            _long_operands(part, db)
        else:
            _from_scalars(part, db)
    return part


def run(ctx):
    n = 48 if ctx.thorough else 18
    tasks = [("ops", (ctx.thorough, i, n)) for i in range(n)]
    with worlds.world("posc") as db:
        if ctx.thorough:
            qts = sorted(db.GetQuantityTypes(), key=lambda q: -len(db.GetUnits(q)))
            tasks += [("conv", qts[i::32]) for i in range(32)]
        else:
            tasks += [("conv", [qt]) for qt in ("length", "time", "mass", "temperature", "pressure", "volume")]
    tasks += [("own", None), ("fromscalars", None), ("ints", None)]
    run_sharded(ctx, _task, tasks)
    c = ctx.part.counters
    ctx.level = "exploration"
    ctx.rule = (
        "complete product: ordered quantity pairs of the pool (%s) x 5 operators x 9 container combinations x 16 length pairs, each compared with the element-wise Scalar results, + the sequence * / + - // * + on ONE pair of operand objects per container combination; "
        "GetValues over every ordered unit pair of %s x 3 containers x lengths 0..3 (+ list/tuple of tuples); FromScalars over every sequence of length 0..3 of 5 scalars x 4 unit choices x 3 category choices x list/generator; "
        "non-trivial = (quantity pair, operator) combinations the Scalar path accepts + converting unit pairs + mixed-unit FromScalars sequences" % ("all 101 depth-2 states" if ctx.thorough else "8 atoms + 10 derived", "every quantity type" if ctx.thorough else "6 quantity types incl. the affine temperature and pressure")
    )
    ctx.coverage_extra = {"quantity_pairs": c.get("quantity_pairs", 0), "length_mismatch_rejected": c.get("length_mismatch_rejected", 0), "unit_pairs": c.get("unit_pairs", 0)}
    ctx.assumptions = [
        "the Scalar path is the reference (its physics is judged by C03/C04)",
        "element values from two fixed 3-element alphabets (non-zero, mixed signs); one-dimensional containers",
        "recorded class D15: an ndarray operand of length <= 1 is broadcast by numpy against a different length; attributed only when the result equals the broadcast of the Scalar-wise expectation",
    ]
