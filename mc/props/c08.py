"""
C08  Comparisons are coherent: order follows physical amount, equality is total.

(a) every ordered unit pair (u, v) of every quantity type: probes physically less / greater by 1e-6
    (relative, on the scale of amount and offsets) and - where the probe is physically equal as exact
    rationals AND the float conversion is exact in both directions - equal; all six operators, both
    operand orders, on Scalar (all pairs) and FractionScalar (quick: 12 units per type; thorough:
    all pairs).  Truth = comparison of the exact base-unit amounts (dims model).
(b) ordering across quantity types raises TypeError (every ordered pair of quantity types).
(c) == / != over all ordered pairs of a zoo of barril value objects and unrelated objects.
"""
import operator
from collections import OrderedDict

import numpy as np

from barril.basic.fraction import Fraction, FractionValue
from barril.curve.curve import Curve
from barril.units import Array, FixedArray, FractionScalar, GetUnknownQuantity, ObtainQuantity, Quantity, Scalar
from barril.units.unit_system import UnitSystem

from .. import worlds
from ..par import run_sharded
from ..ref.dims import Model, NotAffine
from ..runner import Part

OPS = [("<", operator.lt), ("<=", operator.le), (">", operator.gt), (">=", operator.ge), ("==", None), ("!=", None)]
ORDER = OPS[:4]


def _probe_values(model, db, qt, u, v):
    """-> list of (kind, x in u, y in v) with kind in less/greater/equal (y relative to x)."""
    out = []
    conv = db.Convert
    su = float(model.factor(u))
    ou = float(model.offset(u))
    ov = float(model.offset(v))
    for x in (2.0, -37.5):
        scale_base = max(abs(x * su + ou), abs(ou), abs(ov))
        delta_u = 1e-6 * scale_base / abs(su)
        out.append(("less", x, conv(qt, u, v, x - delta_u)))
        out.append(("greater", x, conv(qt, u, v, x + delta_u)))
        y = conv(qt, u, v, x)
        if conv(qt, v, u, y) == x and model.tobase(v, y) == model.tobase(u, x):
            out.append(("equal", x, y))
    return out


def _truth(model, u, x, v, y):
    a, b = model.tobase(u, x), model.tobase(v, y)
    return {"<": a < b, "<=": a <= b, ">": a > b, ">=": a >= b}


def _order_task(task):
    qts, fs_all = task
    part = Part()
    with worlds.world("posc") as db:
        model = Model(db)
        for qt in qts:
            units = db.GetUnits(qt)
            try:
                for u in units:
                    model.factor(u)
            except NotAffine:
                part.count("types_skipped_not_affine")
                continue
            fs_units = set(units if fs_all else units[:12])
            for u in units:
                c = db.GetDefaultCategory(u)
                for v in units:
                    part.count("pairs")
                    for kind, x, y in _probe_values(model, db, qt, u, v):
                        a, b = Scalar(x, u, c), Scalar(y, v, c)
                        t_ab = _truth(model, u, x, v, y)
                        t_ba = _truth(model, v, y, u, x)
                        classes = [("Scalar", a, b)]
                        if u in fs_units and v in fs_units:
                            classes.append(("FractionScalar", FractionScalar(c, x, u), FractionScalar(c, y, v)))
                        for cname, p, q in classes:
                            for name, op in ORDER:
                                part.count("evaluations", 2)
                                try:
                                    g1, g2 = op(p, q), op(q, p)
                                except Exception as e:
                                    part.violation("C08:order-raised:%s:%s:%s %s %s:%s" % (cname, qt, u, name, v, kind), {"error": repr(e)})
                                    continue
                                if g1 != t_ab[name] or g2 != t_ba[name]:
                                    part.violation(
                                        "C08:order:%s:%s:%s %s %s:%s" % (cname, qt, u, name, v, kind),
                                        {"a": repr(p), "b": repr(q), "a op b": g1, "b op a": g2, "physically": [t_ab[name], t_ba[name]], "probe": kind},
                                        "from mc import worlds\nfrom barril.units import *\nfrom barril.units import FractionScalar\nwith worlds.world('posc'):\n    a, b = %s, %s\n    print(a, b, a %s b, b %s a)\n    assert (a %s b) == %r and (b %s a) == %r\n"
                                        % (
                                            "Scalar(%r, %r, %r)" % (x, u, c) if cname == "Scalar" else "FractionScalar(%r, %r, %r)" % (c, x, u),
                                            "Scalar(%r, %r, %r)" % (y, v, c) if cname == "Scalar" else "FractionScalar(%r, %r, %r)" % (c, y, v),
                                            name, name, name, t_ab[name], name, t_ba[name],
                                        ),
                                    )
                        # the same two Scalars compared while ANOTHER database is the current singleton: a
                        # Scalar belongs to the database it was created in
                        with worlds.foreign_singleton():
                            for name, op in ORDER:
                                part.count("evaluations", 2)
                                try:
                                    g1, g2 = op(a, b), op(b, a)
                                except Exception as e:
                                    part.violation("C08:order under a foreign singleton:Scalar:%s:%s %s %s:%s:raised" % (qt, u, name, v, kind), {"error": repr(e)})
                                    break
                                if g1 != t_ab[name] or g2 != t_ba[name]:
                                    part.violation("C08:order under a foreign singleton:Scalar:%s:%s %s %s:%s" % (qt, u, name, v, kind), {"a": repr(a), "b": repr(b), "a op b": g1, "b op a": g2, "physically": [t_ab[name], t_ba[name]]},
                                                   "from mc import worlds\nfrom barril.units import *\nwith worlds.world('posc'):\n    a, b = Scalar(%r, %r, %r), Scalar(%r, %r, %r)\n    with worlds.foreign_singleton():\n        print(a %s b, b %s a)\n        assert (a %s b) == %r and (b %s a) == %r\n" % (x, u, c, y, v, c, name, name, name, t_ab[name], name, t_ba[name]))
                                    break
                        if kind == "equal":
                            part.count("equal_probes")
                            if u != v:
                                part.count("nontrivial")
                        part.add("outcomes", kind)
        part.sample({"quantity_type": qts[0], "probes": _probe_values(model, db, qts[0], db.GetUnits(qts[0])[0], db.GetUnits(qts[0])[-1])[:3]}, cap=1)
    return part


def _cross_task(qts):
    part = Part()
    with worlds.world("posc") as db:
        all_qts = [q for q in db.GetQuantityTypes() if db.GetDefaultCategory(db.GetBaseUnit(q))]
        reps = {q: Scalar(1.0, db.GetBaseUnit(q)) for q in all_qts}
        freps = {q: FractionScalar(1.0, db.GetBaseUnit(q)) for q in all_qts}
        if "length" in qts:
            # a derived quantity whose unit string coincides with a table unit of another quantity type
            # (m.m vs the area unit 'm2'): the quantity types differ, so ordering them raises as well
            for label, mk_d, mk_t in (("m*m vs m2 (area)", lambda: Scalar(3.0, "m") * Scalar(2.0, "m"), lambda: Scalar(6.0, "m2")), ("m**3 vs m3 (volume)", lambda: Scalar(2.0, "m") ** 3, lambda: Scalar(8.0, "m3")),
                                      ("m/s vs m/s (velocity)", lambda: Scalar(1.0, "m") / Scalar(1.0, "s"), lambda: Scalar(1.0, "m/s"))):
                for swap in (False, True):
                    for name, op in ORDER:
                        part.count("evaluations")
                        a, b = (mk_t(), mk_d()) if swap else (mk_d(), mk_t())
                        try:
                            r = op(a, b)
                            part.violation("C08:cross-type-order-returned:derived vs table unit of the same text:%s:%s%s" % (label, name, " (swapped)" if swap else ""), {"returned": r, "a": repr(a), "b": repr(b)})
                        except TypeError:
                            pass
                        except Exception as e:
                            part.violation("C08:cross-type-order-wrong-exception:derived vs table unit of the same text:%s:%s" % (label, name), {"raised": repr(e)})
        for qa in qts:
            if qa not in reps:
                continue
            for qb in all_qts:
                if qa == qb or "Unknown" in (qa, qb):
                    continue
                part.count("cross_type_pairs")
                for cname, a, b in (("Scalar", reps[qa], reps[qb]), ("FractionScalar", freps[qa], freps[qb])):
                    for name, op in ORDER:
                        part.count("evaluations")
                        try:
                            r = op(a, b)
                            part.violation("C08:cross-type-order-returned:%s:%s %s %s" % (cname, qa, name, qb), {"returned": r})
                        except TypeError:
                            pass
                        except Exception as e:
                            part.violation("C08:cross-type-order-wrong-exception:%s:%s %s %s" % (cname, qa, name, qb), {"raised": repr(e)},
                                           "from mc import worlds\nfrom barril.units import *\nfrom barril.units import FractionScalar\nwith worlds.world('posc') as db:\n    a, b = %s(1.0, %r), %s(1.0, %r)\n    try:\n        a %s b\n    except TypeError:\n        raise SystemExit(0)\n    raise SystemExit(1)\n" % (cname, a.GetUnit(), cname, b.GetUnit(), name))
    return part


def zoo():
    z = OrderedDict()
    z["Quantity simple"] = lambda: ObtainQuantity("m", "length")
    z["Quantity simple other category"] = lambda: ObtainQuantity("m", "depth")
    z["Quantity direct constructor"] = lambda: Quantity("length", "m")
    z["Quantity derived"] = lambda: ObtainQuantity([("m", 2), ("s", -1)], ("length", "time"))
    z["Quantity derived direct constructor"] = lambda: Quantity(OrderedDict([("length", ["m", 2]), ("time", ["s", -1])]), None)
    z["Quantity empty"] = lambda: Quantity.CreateEmpty()
    z["Quantity unknown"] = lambda: GetUnknownQuantity()
    z["Quantity unknown caption"] = lambda: GetUnknownQuantity("cap")
    z["Quantity known unit with caption"] = lambda: ObtainQuantity("m", "length", "label")
    z["Quantity known unit with another caption"] = lambda: ObtainQuantity("m", "length", "other label")
    z["Quantity derived with caption"] = lambda: Quantity.CreateDerived(OrderedDict([("length", ["m", 2]), ("time", ["s", -1])]), unknown_unit_caption="label")
    z["Scalar known unit with caption"] = lambda: Scalar(ObtainQuantity("m", "length", "label"), 1.0)
    z["Scalar simple"] = lambda: Scalar(1.0, "m", "length")
    z["Scalar simple again"] = lambda: Scalar(1.0, "m", "length")
    z["Scalar other value"] = lambda: Scalar(2.0, "m", "length")
    z["Scalar other unit same amount"] = lambda: Scalar(100.0, "cm", "length")
    z["Scalar other category"] = lambda: Scalar(1.0, "m", "depth")
    z["Scalar derived"] = lambda: Scalar(1.0, "m") / Scalar(2.0, "s")
    z["Scalar empty"] = lambda: Scalar.CreateEmptyScalar(1.0)
    z["Scalar unknown caption"] = lambda: Scalar(GetUnknownQuantity("cap"), 1.0)
    z["Array list"] = lambda: Array([1.0, 2.0], "m")
    z["Array tuple"] = lambda: Array((1.0, 2.0), "m")
    z["Array ndarray"] = lambda: Array(np.array([1.0, 2.0]), "m")
    z["Array ndarray len 3"] = lambda: Array(np.array([1.0, 2.0, 3.0]), "m")
    z["Array list len 3"] = lambda: Array([1.0, 2.0, 3.0], "m")
    z["Array list len 0"] = lambda: Array([], "m")
    z["Array ndarray len 0"] = lambda: Array(np.array([]), "m")
    z["Array list len 1"] = lambda: Array([1.0], "m")
    z["Array ndarray len 1"] = lambda: Array(np.array([1.0]), "m")
    z["Array other unit"] = lambda: Array([1.0, 2.0], "cm")
    z["Array derived"] = lambda: Array([1.0, 2.0], "m") / Array([1.0, 1.0], "s")
    z["Array empty quantity"] = lambda: Array.CreateEmptyArray([1.0, 2.0])
    z["FixedArray list"] = lambda: FixedArray(2, [1.0, 2.0], "m")
    z["FixedArray tuple"] = lambda: FixedArray(2, (1.0, 2.0), "m")
    z["FixedArray ndarray"] = lambda: FixedArray(2, np.array([1.0, 2.0]), "m")
    z["FixedArray dim 3"] = lambda: FixedArray(3, [1.0, 2.0, 3.0], "m")
    z["FixedArray empty quantity"] = lambda: FixedArray.CreateEmptyArray(2, [1.0, 2.0])
    z["FractionScalar"] = lambda: FractionScalar("length", FractionValue(1, (1, 2)), "m")
    z["FractionScalar again"] = lambda: FractionScalar("length", FractionValue(1, (1, 2)), "m")
    z["FractionScalar whole"] = lambda: FractionScalar(1.0, "m", "length")
    z["FractionValue"] = lambda: FractionValue(1, (1, 2))
    z["FractionValue again"] = lambda: FractionValue(1, Fraction(2, 4))
    z["FractionValue whole"] = lambda: FractionValue(1.0)
    z["Fraction"] = lambda: Fraction(1, 2)
    z["Fraction again"] = lambda: Fraction(2, 4)
    z["Fraction other"] = lambda: Fraction(3, 4)
    z["Fraction whole"] = lambda: Fraction(1, 1)
    z["Curve"] = lambda: Curve(Array([1.0, 2.0], "m"), Array([0.0, 1.0], "s"))
    z["Curve again"] = lambda: Curve(Array([1.0, 2.0], "m"), Array([0.0, 1.0], "s"))
    z["Curve FixedArray"] = lambda: Curve(FixedArray(2, [1.0, 2.0], "m"), FixedArray(2, [0.0, 1.0], "s"))
    z["Curve other"] = lambda: Curve(Array([1.0, 2.0, 3.0], "m"), Array([0.0, 1.0, 2.0], "s"))
    z["UnitSystem"] = lambda: UnitSystem("id", "caption", {"length": "m"})
    z["UnitSystem again"] = lambda: UnitSystem("id", "caption", {"length": "m"})
    z["UnitSystem other"] = lambda: UnitSystem("id2", "caption", {"length": "cm"})
    z["None"] = lambda: None
    z["str"] = lambda: "m"
    z["int"] = lambda: 1
    z["float"] = lambda: 1.0
    z["float half"] = lambda: 0.5
    z["tuple"] = lambda: (1.0, "m")
    z["list"] = lambda: [1.0, 2.0]
    z["object"] = lambda: object()
    z["dict"] = lambda: {"length": "m"}
    return z


BARRIL = (Quantity, Scalar, Array, FractionScalar, FractionValue, Fraction, Curve, UnitSystem)


def _equality(part):
    with worlds.world("posc"):
        Z = zoo()
        names = list(Z)
        for na in names:
            for nb in names:
                a, b = Z[na](), Z[nb]()
                if not isinstance(a, BARRIL) and not isinstance(b, BARRIL):
                    continue
                part.count("evaluations")
                part.count("zoo_pairs")
                sig = "C08:equality:%s vs %s" % (na, nb)
                sn = "from mc import worlds\nfrom mc.props import c08\nwith worlds.world('posc'):\n    Z = c08.zoo()\n    a, b = Z[%r](), Z[%r]()\n    print(repr(a), repr(b))\n    assert (a == b) == (b == a) and (a != b) == (not (a == b))\n" % (na, nb)
                try:
                    e1, e2 = a == b, b == a
                    n1, n2 = a != b, b != a
                except Exception as e:
                    part.violation(sig + ":raised", {"error": repr(e)}, sn)
                    continue
                if not all(isinstance(x, (bool, np.bool_)) for x in (e1, e2, n1, n2)):
                    part.violation(sig + ":not-a-bool", {"results": [repr(e1), repr(e2), repr(n1), repr(n2)]}, sn)
                    continue
                part.add("outcomes", (bool(e1), type(a).__name__ == type(b).__name__))
                if e1:
                    part.add("nontrivial", (na, nb))
                if bool(e1) != bool(e2):
                    part.violation(sig + ":asymmetric", {"a==b": bool(e1), "b==a": bool(e2)}, sn)
                if bool(n1) != (not e1) or bool(n2) != (not e2):
                    part.violation(sig + ":!= inconsistent with ==", {"a==b": bool(e1), "a!=b": bool(n1), "b==a": bool(e2), "b!=a": bool(n2)}, sn)
                if na == nb and not e1:
                    if na != "object":
                        part.violation(sig + ":equal construction not equal", {}, sn)
                if e1:
                    try:
                        ha, hb = hash(a), hash(b)
                    except Exception:
                        continue
                    if ha != hb:
                        part.violation(sig + ":equal but different hashes", {}, sn)
            # reflexive on the same object
            a = Z[na]()
            try:
                if isinstance(a, BARRIL) and (not (a == a) or (a != a)):
                    part.violation("C08:equality:%s:not reflexive" % na, {}, None)
            except Exception as e:
                part.violation("C08:equality:%s:reflexive comparison raised" % na, {"error": repr(e)})


# -- (d) FractionScalar with fraction parts --------------------------------------------------------

FV_FORMS = [
    (2, (3, 4)), (2, (1, 4)), (1, (3, 2)), (2.5, (0, 1)), (1.5, (1, 1)), (0, (11, 4)), (3, (-1, 4)), (-2, (3, 4)), (-1, (-1, 4)), (-1.25, (0, 1)),
    (2, (1, 2)), (2.25, (1, 4)), (0.5, (2, 1)), (1, (7, 4)), (2, (6, 8)),
]


def _fraction_forms_task(qts):
    """every ordered pair of FractionValue forms (proper, improper, fractional number, negative) in
    one unit, for every unit of the quantity types: the six operators must follow number + num/den."""
    from fractions import Fraction as Q

    part = Part()
    amounts = [Q(repr(float(n))) + Q(num, den) for n, (num, den) in FV_FORMS]
    with worlds.world("posc") as db:
        for qt in qts:
            for u in db.GetUnits(qt):
                c = db.GetDefaultCategory(u)
                if not c:
                    continue
                part.count("fraction_form_units")
                objs = [FractionScalar(c, FractionValue(n, f), u) for n, f in FV_FORMS]
                for i, a in enumerate(objs):
                    for j, b in enumerate(objs):
                        qa, qb = amounts[i], amounts[j]
                        truth = {"<": qa < qb, "<=": qa <= qb, ">": qa > qb, ">=": qa >= qb}
                        for name, op in ORDER:
                            part.count("evaluations")
                            try:
                                g = op(a, b)
                            except Exception as e:
                                part.violation("C08:fraction-forms:%s:%r %s %r:raised" % (u, FV_FORMS[i], name, FV_FORMS[j]), {"error": repr(e)})
                                continue
                            if g != truth[name]:
                                part.violation(
                                    "C08:fraction-forms:%s:%r %s %r" % (u, FV_FORMS[i], name, FV_FORMS[j]),
                                    {"got": g, "amounts": [float(qa), float(qb)]},
                                    "from mc import worlds\nfrom barril.units import FractionScalar\nfrom barril.basic.fraction import FractionValue\nwith worlds.world('posc'):\n    a = FractionScalar(%r, FractionValue(%r, %r), %r)\n    b = FractionScalar(%r, FractionValue(%r, %r), %r)\n    print(a, b, a %s b)\n    assert (a %s b) == %r\n"
                                    % (c, FV_FORMS[i][0], FV_FORMS[i][1], u, c, FV_FORMS[j][0], FV_FORMS[j][1], u, name, name, truth[name]),
                                )
                        if qa == qb and i != j:
                            part.add("nontrivial", ("ff", i, j))
    return part


def _fraction_cross_unit_task(qts):
    """FractionScalars WITH a fraction part against amounts in another unit, on REUSED objects: the
    sequence a<b, b<a, a<=b, b>=a, a<b, b<a (an answer must not depend on earlier comparisons)."""
    from fractions import Fraction as Q

    from .c18 import quantised

    part = Part()
    seq = [("<", 0), ("<", 1), ("<=", 0), (">=", 1), (">", 0), ("<", 0), ("<", 1), (">=", 0)]
    opf = dict(ORDER)
    with worlds.world("posc") as db:
        model = Model(db)
        for qt in qts:
            units = db.GetUnits(qt)
            try:
                for u in units:
                    model.factor(u)
            except NotAffine:
                continue
            for u in units:
                c = db.GetDefaultCategory(u)
                if not c:
                    continue
                for v in units:
                    if u == v:
                        continue
                    zero = db.Convert(qt, u, v, 0.0)
                    for n, (num, den) in ((2, (3, 4)), (1, (3, 2))):
                        cnum = db.Convert(qt, u, v, float(num)) - zero
                        try:
                            if abs(float(quantised(cnum)) - cnum) > 1e-12 * abs(cnum):
                                part.count("cross_unit_pairs_skipped_numerator_quantisation")  # recorded class D11b, judged by C18
                                continue
                        except (ValueError, OverflowError):
                            continue
                        x = n + num / den
                        conv = db.Convert(qt, u, v, x)
                        sc = max(abs(conv), abs(zero))
                        for kind, y in (("less", conv - 1e-6 * sc), ("greater", conv + 1e-6 * sc)):
                            a = FractionScalar(c, FractionValue(n, (num, den)), u)
                            b = FractionScalar(c, FractionValue(y), v)
                            qa = model.tobase(u, Q(n) + Q(num, den))
                            qb = model.tobase(v, y)
                            done = []
                            for name, swap in seq:
                                part.count("evaluations")
                                p, q, pa, qb_ = (b, a, qb, qa) if swap else (a, b, qa, qb)
                                done.append("%s %s %s" % ("b" if swap else "a", name, "a" if swap else "b"))
                                truth = {"<": pa < qb_, "<=": pa <= qb_, ">": pa > qb_, ">=": pa >= qb_}[name]
                                try:
                                    g = opf[name](p, q)
                                except Exception as e:
                                    part.violation("C08:fraction-cross-unit:%s %r %s vs %s %s:%s:raised" % (qt, (n, (num, den)), u, kind, v, " ; ".join(done)), {"error": repr(e)})
                                    break
                                if g != truth:
                                    part.violation(
                                        "C08:fraction-cross-unit:%s %r %s vs %s %s:%s" % (qt, (n, (num, den)), u, kind, v, " ; ".join(done)),
                                        {"got": g, "a": repr(a), "b": repr(b)},
                                        "from mc import worlds\nfrom barril.units import FractionScalar\nfrom barril.basic.fraction import FractionValue\nwith worlds.world('posc'):\n    a = FractionScalar(%r, FractionValue(%r, %r), %r)\n    b = FractionScalar(%r, FractionValue(%r), %r)\n    r = [%s]\n    print(a, b, r)\n    assert r[-1] == %r\n"
                                        % (c, n, (num, den), u, c, y, v, ", ".join(done), truth),
                                    )
                                    break
                            # the Fraction object the value hands out is edited IN PLACE (numerator setter / index form: no setter
                            # of the value runs), once up and once down across b's amount: the order follows the amount shown now
                            fr0 = a.GetValue().GetFraction()
                            num0, den0 = int(fr0.numerator), int(fr0.denominator)
                            for how, newnum in (("fraction.numerator = ", num0 + 4 * den0), ("fraction[0] = ", num0 - 4 * den0), ("fraction.numerator = ", num0 + 8 * den0)):
                                fr = a.GetValue().GetFraction()
                                if how.startswith("fraction["):
                                    fr[0] = newnum
                                else:
                                    fr.numerator = newnum
                                qa3 = model.tobase(u, Q(n) + Q(newnum, den0))
                                for name, swap in (("<", 0), ("<", 1), (">=", 0), (">", 1)):
                                    part.count("evaluations")
                                    p, q, pa, qb_ = (b, a, qb, qa3) if swap else (a, b, qa3, qb)
                                    truth = {"<": pa < qb_, ">=": pa >= qb_, ">": pa > qb_}[name]
                                    try:
                                        g = opf[name](p, q)
                                    except Exception as e:
                                        g = repr(e)
                                    if g != truth:
                                        part.violation("C08:fraction-cross-unit:%s %r %s vs %s %s:after comparisons the caller edits the value's Fraction in place (%s%d): %s %s %s" % (qt, (n, (num, den)), u, kind, v, how, newnum, "b" if swap else "a", name, "a" if swap else "b"), {"got": g, "truth": truth, "a": repr(a), "b": repr(b)})
                                        break
                            a.GetValue().GetFraction().numerator = num0
                            # a FractionScalar shares the FractionValue it was built from / hands out: after the
                            # caller edits it the order follows the NEW amount (nothing remembered from before)
                            else_ok = True
                            fv = a.GetValue()
                            fv.SetNumber(n + 40)
                            qa2 = model.tobase(u, Q(n + 40) + Q(num, den))
                            for name, swap in (("<", 0), ("<", 1), (">=", 0)):
                                part.count("evaluations")
                                p, q, pa, qb_ = (b, a, qb, qa2) if swap else (a, b, qa2, qb)
                                truth = {"<": pa < qb_, ">=": pa >= qb_}[name]
                                try:
                                    g = opf[name](p, q)
                                except Exception as e:
                                    part.violation("C08:fraction-cross-unit:%s %r %s vs %s %s:after the caller changed the number:raised" % (qt, (n, (num, den)), u, kind, v), {"error": repr(e)})
                                    break
                                if g != truth:
                                    part.violation("C08:fraction-cross-unit:%s %r %s vs %s %s:after 8 comparisons the caller sets the number to %d: %s %s %s" % (qt, (n, (num, den)), u, kind, v, n + 40, "b" if swap else "a", name, "a" if swap else "b"), {"got": g, "a": repr(a), "b": repr(b)})
                                    break
                        part.add("nontrivial", ("fcu", u, v))
    return part


# -- (e) equality / hash over the derived-quantity graph -------------------------------------------


def _graph_equality(part, depth):
    """all ordered pairs of derived quantities (every ORDER of composition is a distinct state) and of
    Scalars holding them: == symmetric, != consistent, equal implies equal hash, never raises."""
    from .. import algebra

    with worlds.world("posc") as db:
        states, _t = algebra.explore(db, depth, reciprocals=True)
        qs = [st.scalar.GetQuantity() for st in states]
        ss = [Scalar.CreateWithQuantity(q, 1.5) for q in qs]
        part.count("graph_states", len(states))
        for kind, objs in (("Quantity", qs), ("Scalar", ss)):
            hashes = []
            for o in objs:
                try:
                    hashes.append(hash(o))
                except Exception as e:
                    hashes.append(None)
                    part.violation("C08:graph:%s:hash raised" % kind, {"error": repr(e)})
            for i, a in enumerate(objs):
                for j, b in enumerate(objs):
                    part.count("evaluations")
                    try:
                        e1, e2, n1 = a == b, b == a, a != b
                    except Exception as e:
                        part.violation("C08:graph:%s:%s vs %s:raised" % (kind, algebra.describe(states[i].history), algebra.describe(states[j].history)), {"error": repr(e)})
                        continue
                    sig = "C08:graph:%s:%s vs %s" % (kind, algebra.describe(states[i].history), algebra.describe(states[j].history))
                    sn = "from mc import worlds\nfrom barril.units import Scalar\nwith worlds.world('posc'):\n    a = (%s)\n    b = (%s)\n    %s\n    print(a, b, a == b, hash(a) == hash(b))\n    assert (a == b) == (b == a) and (a != b) == (not a == b) and (a != b or hash(a) == hash(b))\n" % (
                        algebra.expr(states[i].history), algebra.expr(states[j].history), "a, b = a.GetQuantity(), b.GetQuantity()" if kind == "Quantity" else "a, b = Scalar.CreateWithQuantity(a.GetQuantity(), 1.5), Scalar.CreateWithQuantity(b.GetQuantity(), 1.5)")
                    if bool(e1) != bool(e2):
                        part.violation(sig + ":asymmetric", {"a==b": bool(e1), "b==a": bool(e2)}, sn)
                    if bool(n1) == bool(e1):
                        part.violation(sig + ":!= inconsistent with ==", {}, sn)
                    if i == j and not e1:
                        part.violation(sig + ":not reflexive", {}, sn)
                    if e1 and hashes[i] is not None and hashes[i] != hashes[j]:
                        part.violation(sig + ":equal but different hashes", {}, sn)
                    if e1 and i != j:
                        part.add("nontrivial", ("graph", kind, i, j))
                    part.add("outcomes", ("graph", bool(e1)))


def _dispatch(task):
    if task[0] == "order":
        return _order_task(task[1])
    if task[0] == "cross":
        return _cross_task(task[1])
    if task[0] == "fraction_forms":
        return _fraction_forms_task(task[1])
    if task[0] == "fraction_cross":
        return _fraction_cross_unit_task(task[1])
    p = Part()
    if task[0] == "graph":
        _graph_equality(p, task[1])
        return p
    _equality(p)
    return p


def run(ctx):
    with worlds.world("posc") as db:
        qts = sorted(db.GetQuantityTypes(), key=lambda q: -len(db.GetUnits(q)))
    tasks = [("order", (qts[i::48], ctx.thorough)) for i in range(48)]
    tasks += [("cross", qts[i::8]) for i in range(8)]
    tasks += [("equality", None), ("graph", 3 if ctx.thorough else 2)]
    ffq = qts if ctx.thorough else ["length", "temperature", "pressure", "time", "volume", "mass"]
    tasks += [("fraction_forms", ffq[i::8]) for i in range(8) if ffq[i::8]]
    tasks += [("fraction_cross", ffq[i::16]) for i in range(16) if ffq[i::16]]
    run_sharded(ctx, _dispatch, tasks)
    c = ctx.part.counters
    ctx.level = "exploration"
    ctx.rule = (
        "(a) every ordered unit pair of every quantity type x probes {less, greater by 1e-6; equal where exact as rationals and in both float directions} x 2 amounts x 4 order operators x both operand orders on Scalar and FractionScalar; "
        "(b) every ordered pair of quantity types; (c) all ordered pairs of a %d-object zoo; (d) all ordered pairs of 15 FractionValue forms (proper, improper, fractional number, negative) in every unit of 6 (thorough: all) quantity types x 4 order operators; (d2) FractionScalars with a fraction part against less/greater amounts in every other unit of those types, a sequence of 8 comparisons on the same two objects; (e) all ordered pairs of the derived quantities of the depth-2 (thorough 3) composition graph, as Quantity and as Scalar: symmetric, consistent, hash-consistent; non-trivial = exact-equal probes in different units + equal zoo pairs; outcomes = probe kinds and (equal?, same class?)" % len(zoo())
    )
    ctx.states = c.get("pairs", 0)
    ctx.transitions = c.get("evaluations", 0)
    ctx.coverage_extra = {"unit_pairs": c.get("pairs", 0), "equal_probes": c.get("equal_probes", 0), "cross_type_pairs": c.get("cross_type_pairs", 0), "zoo_pairs": c.get("zoo_pairs", 0), "zoo": list(zoo())}
    ctx.assumptions = [
        "near-ties that differ only by rounding are not in the alphabet (the property speaks of physical amounts): probes differ by 1e-6 on the scale of amount and offsets, or are exactly equal as rationals with exact float conversions both ways",
        "truth = exact rational base-unit amounts from the table's written coefficients",
        "containers in the zoo are one-dimensional (as the property states)",
    ]
