"""
C01  Unit conversion is invertible, path independent and increasing.

Space: worlds posc, posc_nocat, simple; every quantity type; every ordered unit pair (u, v); all
conversion paths of length <= 2 from every origin (u->u, u->v, u->v->u, u->v->w vs u->w); value
alphabet V.  quick: w through two fixed intermediate units (base and last listed) for every (u, w);
thorough: every ordered triple.  Per unit additionally an exact rational check of
frombase(tobase(x)) == x from the written coefficients.
"""
from fractions import Fraction as F

from .. import worlds
from ..par import run_sharded
from ..ref import dims
from ..runner import Part

WORLDS = ("posc", "posc_nocat", "simple")
# depth-2 histories: the same sweep on posc after conversions of every unit pair (one direction only)
# requested under the Unknown quantity type (where any label is accepted and nothing is converted)
WARM_WORLD = "posc+unknown-type requests first"

BASE_V = [0.0, 1.0, -1.0, 0.5, -0.5, 37.5, -37.5, 1e-9, -1e-9, 1e9, -1e9]
TOL = 1e-12


def _lin(info):
    """numeric slope / offset of the to-base closure (used only to scale tolerances)."""
    t0 = float(info.tobase(0.0))
    t1 = float(info.tobase(1.0))
    return t1 - t0, t0


def _values(infos):
    vs = set(BASE_V)
    for info in infos:
        slope, off = _lin(info)
        if off != 0.0 and slope != 0.0:
            z = -off / slope  # the amount that maps to 0 in base units (e.g. -273.15 degC)
            d = max(abs(z), 1.0) * 1e-6
            vs.update((z, z - d, z + d))
    return sorted(vs)


_SNIP_QT = [None]


def _snip(world, body):
    return (
        "from mc import worlds\n"
        "with worlds.world(%r) as db:\n" % world.split("+")[0]
        + ("    u = db.GetUnits(%r)\n    for i, a in enumerate(u):\n        for b in u[i + 1:]:\n            db.Convert('Unknown', a, b, 1.0)\n" % _SNIP_QT[0] if "+" in world else "")
        + "".join("    " + line + "\n" for line in body.strip().splitlines())
    )


def _task(task):
    world, qt, mode = task
    _SNIP_QT[0] = qt
    part = Part()
    with worlds.world(world.split("+")[0]) as db:
        infos = db.GetInfos(qt)
        units = [i.unit for i in infos]
        if world == WARM_WORLD:
            import numpy as np

            for i, u in enumerate(units):
                for v in units[i + 1:]:
                    for f in (lambda: db.Convert("Unknown", u, v, 1.0), lambda: db.Convert("Unknown", u, v, [1.0]), lambda: db.Convert("Unknown", u, v, np.array([1.0]))):
                        part.count("prelude_operations")
                        try:
                            f()
                        except Exception:
                            part.count("prelude_operations_rejected")
        V = _values(infos)
        lin = {i.unit: _lin(i) for i in infos}
        conv = db.Convert
        # u -> v for all values
        c = {}
        for u in units:
            for v in units:
                # (u -> u is asked with two DISTINCT but equal string objects, as a symbol read from a file would be)
                c[u, v] = [conv(qt, u, v if v is not u else (u + " ")[:-1], x) for x in V]
                part.count("evaluations", len(V))
        max_off = max(abs(o) for _s, o in lin.values())
        # the same conversions asked with the units in list form with exponent 1 ([(u, 1)] -> [(v, 1)]): the same
        # numbers (units with an offset, where a detour through magnitudes and signs would show; every value)
        for u in units:
            for v in units:
                if u != v and (lin[u][1] != 0 or lin[v][1] != 0):
                    # (as a list, and as the tuple Quantity.GetComposingUnits() hands out)
                    for form, mk in (("list", lambda w: [(w, 1)]), ("tuple", lambda w: ((w, 1),))):
                        for x, r in zip(V, c[u, v]):
                            part.count("evaluations")
                            try:
                                g = conv(qt, mk(u), mk(v), x)
                            except Exception as e:
                                g = repr(e)
                            if not (g == r or (g != g and r != r)):
                                part.violation("C01:%s-form-exponent-1:%s:%s:%s->%s" % (form, world, qt, u, v), {"x": x, "composing_form": g, "plain": r},
                                               _snip(world, "a = db.Convert(%r, %r, %r, %r)\nb = db.Convert(%r, %r, %r, %r)\nprint(a, b)\nassert a == b" % (qt, mk(u), mk(v), x, qt, u, v, x)))
                                break
        for u in units:
            su, ou = lin[u]
            # identity path
            for x, r in zip(V, c[u, u]):
                if not (r == x):
                    part.violation(
                        "C01:same-unit:%s:%s:%s" % (world, qt, u),
                        {"x": x, "got": r},
                        _snip(world, "r = db.Convert(%r, %r, %r, %r)\nassert r == %r, r" % (qt, u, u, x, x)),
                    )
            for v in units:
                if u == v:
                    continue
                sv, ov = lin[v]
                cuv = c[u, v]
                if cuv[V.index(1.0)] != 1.0:
                    part.count("nontrivial")
                part.add("outcomes", round(cuv[V.index(1.0)], 9) if abs(cuv[V.index(1.0)]) < 1e300 else 0)
                # strictly increasing: judged on consecutive amounts that stay apart by far more than
                # an ulp once the affine offsets of u and v are added (1e-9 relative in base units)
                last = 0
                for i in range(1, len(V)):
                    b0, b1 = V[last] * su + ou, V[i] * su + ou
                    if not (b1 - b0 > 1e-9 * max(abs(b0), abs(b1), abs(ou), abs(ov))):
                        continue
                    part.count("order_probes")
                    if not (cuv[last] < cuv[i]):
                        part.violation(
                            "C01:monotonic:%s:%s:%s->%s" % (world, qt, u, v),
                            {"x1": V[last], "x2": V[i], "y1": cuv[last], "y2": cuv[i]},
                            _snip(
                                world,
                                "y1 = db.Convert(%r, %r, %r, %r)\ny2 = db.Convert(%r, %r, %r, %r)\nassert y1 < y2, (y1, y2)"
                                % (qt, u, v, V[last], qt, u, v, V[i]),
                            ),
                        )
                        break
                    last = i
                # the same amounts in numpy containers (1-d, Fortran-ordered 2-d, a buffer refilled in place)
                # take the very same path as the floats
                if world != "simple":
                    import numpy as np

                    n4 = 4 * (len(V) // 4)
                    for cname, arr in (("ndarray", np.array(V)), ("Fortran-ordered 2-d ndarray", np.asfortranarray(np.array(V[:n4]).reshape(-1, 2)))):
                        part.count("evaluations")
                        got = np.asarray(conv(qt, u, v, arr))
                        exp = np.array(cuv[: arr.size]).reshape(arr.shape) if arr.ndim == 2 else np.array(cuv)
                        if got.shape != exp.shape or not all(g == e or dims.close(g, e, max(abs(e), max_off, abs(ov)), TOL) for g, e in zip(got.ravel(), exp.ravel())):
                            part.violation("C01:container:%s:%s:%s->%s:%s" % (world, qt, u, v, cname), {"got": got.tolist(), "floats": exp.tolist()},
                                           _snip(world, "import numpy as np\na = %s\nr = db.Convert(%r, %r, %r, a)\ne = np.vectorize(lambda x: db.Convert(%r, %r, %r, float(x)))(a)\nprint(r, e)\nassert np.allclose(r, e, rtol=1e-12, atol=0)" % ("np.array(%r)" % (V,) if arr.ndim == 1 else "np.asfortranarray(np.array(%r).reshape(-1, 2))" % (V[:n4],), qt, u, v, qt, u, v)))
                    # tuples and lists, and arrays that hold nothing but zeros (one element, several), like the floats
                    for cname, cont in (("tuple", tuple(V)), ("list", list(V))):
                        part.count("evaluations")
                        got = conv(qt, u, v, cont)
                        if type(got) is not type(cont) or len(got) != len(cuv) or not all(g == e or dims.close(g, e, max(abs(e), max_off, abs(ov)), TOL) for g, e in zip(got, cuv)):
                            part.violation("C01:container:%s:%s:%s->%s:%s" % (world, qt, u, v, cname), {"got": list(got), "floats": cuv},
                                           _snip(world, "r = db.Convert(%r, %r, %r, %s(%r))\ne = [db.Convert(%r, %r, %r, x) for x in %r]\nprint(r, e)\nassert list(r) == e" % (qt, u, v, cname, V, qt, u, v, V)))
                    z = cuv[V.index(0.0)]
                    for cname, arr in (("ndarray [0.0]", np.array([0.0])), ("ndarray of three zeros", np.zeros(3)), ("ndarray [-0.0]", np.array([-0.0]))):
                        part.count("evaluations")
                        got = np.asarray(conv(qt, u, v, arr))
                        if got.shape != arr.shape or not all(g == z or dims.close(g, z, max(abs(z), max_off, abs(ov)), TOL) for g in got):
                            part.violation("C01:container:%s:%s:%s->%s:%s" % (world, qt, u, v, cname), {"got": got.tolist(), "float": z},
                                           _snip(world, "import numpy as np\nr = db.Convert(%r, %r, %r, np.zeros(3))\ne = db.Convert(%r, %r, %r, 0.0)\nprint(r, e)\nassert all(x == e for x in r)" % (qt, u, v, qt, u, v)))
                    buf = np.array(V)
                    conv(qt, u, v, buf)
                    buf[:] = buf[::-1].copy()
                    got = conv(qt, u, v, buf)
                    part.count("evaluations")
                    if not all(g == e or dims.close(g, e, max(abs(e), max_off, abs(ov)), TOL) for g, e in zip(got, cuv[::-1])):
                        part.violation("C01:container:%s:%s:%s->%s:ndarray refilled in place" % (world, qt, u, v), {"got": list(got), "floats": cuv[::-1]})
                # round trip u -> v -> u
                for x, y in zip(V, cuv):
                    back = conv(qt, v, u, y)
                    part.count("evaluations")
                    scale = max(abs(x * su + ou), max_off, abs(ou), abs(ov))
                    if not dims.close(back * su, x * su, scale, TOL):
                        part.violation(
                            "C01:roundtrip:%s:%s:%s->%s->%s" % (world, qt, u, v, u),
                            {"x": x, "there": y, "back": back, "scale_base": scale},
                            _snip(
                                world,
                                "y = db.Convert(%r, %r, %r, %r)\nback = db.Convert(%r, %r, %r, y)\n"
                                "assert abs(back - %r) * %r <= 1e-12 * %r, (y, back)"
                                % (qt, u, v, x, qt, v, u, x, abs(su), scale),
                            ),
                        )
                        break
        # path independence u -> v -> w  vs  u -> w
        if mode == "all":
            mids = units
        else:
            mids = [units[0], units[-1]] if len(units) > 1 else units
        for v in dict.fromkeys(mids):
            for u in units:
                if u == v:
                    continue
                cuv = c[u, v]
                su, ou = lin[u]
                for w in units:
                    if w == v or w == u:
                        continue
                    sw, ow = lin[w]
                    cuw = c[u, w]
                    part.count("triples")
                    for i, x in enumerate(V):
                        via = conv(qt, v, w, cuv[i])
                        part.count("evaluations")
                        scale = max(abs(x * su + ou), max_off)
                        if not dims.close(via * sw, cuw[i] * sw, scale, TOL):
                            part.violation(
                                "C01:path:%s:%s:%s->%s->%s" % (world, qt, u, v, w),
                                {"x": x, "direct": cuw[i], "via": via, "scale_base": scale},
                                _snip(
                                    world,
                                    "d = db.Convert(%r, %r, %r, %r)\nvia = db.Convert(%r, %r, %r, db.Convert(%r, %r, %r, %r))\n"
                                    "assert abs(d - via) * %r <= 1e-12 * %r, (d, via)"
                                    % (qt, u, w, x, qt, v, w, qt, u, v, x, abs(sw), scale),
                                ),
                            )
                            break
        part.sample({"world": world, "quantity_type": qt, "units": units[:6], "values": V[:6]}, cap=1)
    return part


def _exact_units(world):
    """Per unit: exact rational inverse-ness, positive determinant, closure bound to coefficients."""
    part = Part()
    pts = [F(0), F(1), F(-2), F(7, 2)]
    fpts = [0.0, 1.0, -2.0, 3.5]
    with worlds.world(world) as db:
        for qt in db.GetQuantityTypes():
            for info in db.GetInfos(qt):
                part.count("units")
                tb, fb = info.tobase, info.frombase
                if not getattr(tb, "__has_conversion__", True) or not getattr(fb, "__has_conversion__", True):
                    for x in fpts:
                        if not (tb(x) == x and fb(x) == x):
                            part.violation(
                                "C01:identity-unit:%s:%s:%s" % (world, qt, info.unit), {"x": x, "tobase": tb(x), "frombase": fb(x)}
                            )
                    if getattr(tb, "__has_conversion__", True) != getattr(fb, "__has_conversion__", True):
                        # one side claims a conversion: judge numerically
                        for x in fpts:
                            if not dims.close(fb(tb(x)), x, max(abs(x), 1.0)):
                                part.violation("C01:identity-unit:%s:%s:%s" % (world, qt, info.unit), {"x": x})
                    continue
                try:
                    a, b, c, d = dims.written_coeffs(info)
                    a2, b2, c2, d2 = dims.from_coeffs(info)
                except dims.NotAffine:
                    part.count("units_without_coefficients")
                    continue
                part.count("units_exact")
                sig = "C01:exact-inverse:%s:%s:%s" % (world, qt, info.unit)
                det = b * c - a * d
                if not det > 0:
                    part.violation("C01:not-increasing:%s:%s:%s" % (world, qt, info.unit), {"abcd": [str(k) for k in (a, b, c, d)]})
                for x in pts:
                    den = c + d * x
                    if den == 0:
                        continue
                    y = (a + b * x) / den
                    den2 = d2 * y - b2
                    if den2 == 0 or (a2 - c2 * y) / den2 != x:
                        part.violation(
                            sig,
                            {"x": str(x), "tobase_abcd": [str(k) for k in (a, b, c, d)], "frombase_abcd": [str(k) for k in (a2, b2, c2, d2)]},
                            _snip(
                                world,
                                "i = db.GetInfo(%r, %r)\nprint([getattr(i.tobase, '__%%s__' %% k) for k in 'abcd'], [getattr(i.frombase, '__%%s__' %% k) for k in 'abcd'])\n"
                                "x = 3.5\nassert abs(i.frombase(i.tobase(x)) - x) < 1e-9, i.frombase(i.tobase(x))" % (qt, info.unit),
                            ),
                        )
                        break
                # closures agree with their coefficients
                for x, fx in zip(pts, fpts):
                    den = c + d * x
                    if den == 0:
                        continue
                    y = (a + b * x) / den
                    got = tb(fx)
                    part.count("evaluations")
                    if not dims.close(got, y, max(abs(float(y)), abs(float(a / c)) if c else 0.0, 1e-300)):
                        part.violation("C01:closure-vs-coefficients:%s:%s:%s:tobase" % (world, qt, info.unit), {"x": fx, "closure": got, "exact": float(y)})
                    den2 = d2 * x - b2
                    if den2 != 0:
                        z = (a2 - c2 * x) / den2
                        got = fb(fx)
                        part.count("evaluations")
                        if not dims.close(got, z, max(abs(float(z)), abs(float(a2 / b2)) if b2 else 0.0, 1e-300)):
                            part.violation("C01:closure-vs-coefficients:%s:%s:%s:frombase" % (world, qt, info.unit), {"x": fx, "closure": got, "exact": float(z)})
    return part


def _dispatch(task):
    if task[0] == "exact":
        return _exact_units(task[1])
    return _task(task)


def run(ctx):
    mode = "all" if ctx.thorough else "two-mids"
    tasks = []
    for world in WORLDS:
        db = worlds.get(world)
        qts = sorted(db.GetQuantityTypes(), key=lambda q: -len(db.GetInfos(q)))
        tasks.extend((world, qt, mode) for qt in qts)
        tasks.append(("exact", world))
    db = worlds.get("posc")
    tasks.extend((WARM_WORLD, qt, "two-mids") for qt in sorted(db.GetQuantityTypes(), key=lambda q: -len(db.GetInfos(q))) if qt != "Unknown")
    run_sharded(ctx, _dispatch, tasks)
    c = ctx.part.counters
    ctx.level = "exploration"
    ctx.rule = (
        "every ordered unit pair (u,v) of every quantity type of %s (+ posc again after Unknown-type requests for every unit pair in one direction) x value alphabet (11 fixed values + 3 per affine unit); "
        "non-trivial = ordered pairs u != v whose conversion changes the value 1.0; distinct outcomes = distinct Convert(u,v,1.0)" % (WORLDS,)
    )
    ctx.coverage_extra = {
        "triples": c.get("triples", 0),
        "units_exact_rational": c.get("units_exact", 0),
        "units_without_coefficients": c.get("units_without_coefficients", 0),
        "intermediate_units": mode,
        "alphabet": {"values": BASE_V, "worlds": list(WORLDS)},
    }
    ctx.states = sum(len(worlds.get(w).unit_to_unit_info) for w in WORLDS)
    ctx.transitions = c.get("evaluations", 0)
    ctx.assumptions = [
        "values outside [1e-9, 1e9] (plus the amounts at and next to every affine offset) are not explored; all shipped rows are affine so two points determine a conversion, and inverse-ness is additionally decided exactly from the written coefficients",
        "tolerance 1e-12 relative to the largest base-unit magnitude involved (amount and affine offsets)",
        "user-registered non-affine callables are outside the property (only the shipped fillers)",
    ]
