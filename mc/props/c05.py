"""
C05  Dimensionally incompatible operations fail loudly and change nothing.

(a) Inputs, exhaustive on posc: every (unit, category) of different quantity types through the
    constructors; every unit pair across quantity types through the conversions (quick: one
    representative target per foreign type; thorough: all pairs); every ordered pair of derived
    states with different dimension vectors through + - < <= > >= (Scalar), + - (Array).
(b) Histories: EVERY sequence (no de-duplication) of length <= 3 (quick) / 4 (thorough) over valid and
    invalid closed operations on persistent operands; a rejected step must leave operands and registry
    unchanged, and the outcome of every step must equal its outcome in the same
    history with all rejected steps deleted (differential; implies that repeating a rejected
    operation rejects again).
"""
import itertools

import numpy as np

from barril.basic.fraction import FractionValue
from barril.units import Array, FractionScalar, ObtainQuantity, Scalar, UnitsError
from barril.units.unit_database import UnitsError as UE

from .. import algebra, worlds
from ..par import chunks, run_sharded
from ..ref.dims import Model
from ..runner import Part
from . import c13, c14, c15

LOUD = (UnitsError, TypeError, ValueError)
EXEMPT_QT = {"Unknown"}


def _loud(part, sig, thunk, detail, snippet=None):
    part.count("evaluations")
    try:
        r = thunk()
    except LOUD as e:
        part.add("outcomes", type(e).__name__)
        return True
    except Exception as e:
        part.violation(sig + ":wrong-exception", dict(detail, raised=repr(e)), snippet)
        return False
    part.violation(sig + ":returned", dict(detail, returned=repr(r)), snippet)
    return False


def _construct_task(cats):
    part = Part()
    with worlds.world("posc") as db:
        units = [(u, i.quantity_type) for u, i in db.unit_to_unit_info.items()]
        reps = {}
        for u, qt in units:
            reps.setdefault(qt, u)
        for c in cats:
            cqt = db.GetCategoryQuantityType(c)
            if cqt in EXEMPT_QT:
                continue
            cu = db.GetDefaultUnit(c)
            src = Scalar(1.0, cu, c)
            for u, qt in units:
                if qt == cqt or qt in EXEMPT_QT:
                    continue
                part.count("nontrivial")
                sn = "from mc import worlds\nfrom barril.units import *\nfrom barril.units import FractionScalar\nwith worlds.world('posc'):\n    try:\n        r = %s\n    except (UnitsError, TypeError, ValueError) as e:\n        print('raised', type(e).__name__); raise SystemExit(0)\n    print('returned', r); raise SystemExit(1)\n"
                _loud(part, "C05:Scalar:%s:%s" % (u, c), lambda: Scalar(1.0, u, c), {}, sn % ("Scalar(1.0, %r, %r)" % (u, c)))
                _loud(part, "C05:ObtainQuantity:%s:%s" % (u, c), lambda: ObtainQuantity(u, c), {}, sn % ("ObtainQuantity(%r, %r)" % (u, c)))
                if reps[qt] == u:
                    _loud(part, "C05:Array:%s:%s" % (u, c), lambda: Array([1.0, 2.0], u, c), {}, sn % ("Array([1.0, 2.0], %r, %r)" % (u, c)))
                    _loud(part, "C05:FractionScalar:%s:%s" % (u, c), lambda: FractionScalar(c, 1.0, u), {}, sn % ("FractionScalar(%r, 1.0, %r)" % (c, u)))
                    _loud(part, "C05:CreateCopy(unit):%s:%s" % (u, c), lambda: src.CreateCopy(unit=u), {}, sn % ("Scalar(1.0, %r, %r).CreateCopy(unit=%r)" % (cu, c, u)))
                    _loud(part, "C05:CreateCopy(unit,category):%s:%s" % (u, c), lambda: src.CreateCopy(unit=u, category=c), {}, sn % ("Scalar(1.0, %r, %r).CreateCopy(unit=%r, category=%r)" % (cu, c, u, c)))
            # second pass: a rejected (unit, category) must still be rejected (no poisoned memo)
            for qt, u in list(reps.items())[:40]:
                if qt != cqt and qt not in EXEMPT_QT:
                    _loud(part, "C05:Scalar-again:%s:%s" % (u, c), lambda: Scalar(1.0, u, c), {})
        part.sample({"category": cats[0], "foreign_units": len(units)}, cap=1)
    return part


def _convert_task(task):
    us, all_pairs = task
    part = Part()
    with worlds.world("posc") as db:
        units = [(u, i.quantity_type) for u, i in db.unit_to_unit_info.items()]
        reps = {}
        for u, qt in units:
            reps.setdefault(qt, u)
        for u in us:
            qt = db.GetQuantityType(u)
            if qt in EXEMPT_QT:
                continue
            s = Scalar(1.5, u, db.GetDefaultCategory(u))
            arr = Array([1.5, 2.5], u, db.GetDefaultCategory(u))
            targets = [(v, vqt) for v, vqt in units if vqt != qt and vqt not in EXEMPT_QT and (all_pairs or reps[vqt] == v)]
            for v, vqt in targets:
                part.count("nontrivial")
                # the target unit has just been the target of VALID conversions (from a unit of its own type):
                # whatever was remembered about it must not let a foreign amount through
                vb = db.GetBaseUnit(vqt)
                for prime in (lambda: Scalar(1.0, vb).GetValue(v), lambda: db.Convert(vqt, vb, v, 1.0), lambda: db.Convert(vqt, vb, v, [1.0]), lambda: db.Convert(vqt, vb, v, np.array([1.0])), lambda: Array([1.0], vb).GetValues(v), lambda: Scalar(1.0, vb).CreateCopy(unit=v)):
                    try:
                        prime()
                    except Exception:
                        pass
                sn = "from mc import worlds\nfrom barril.units import *\nwith worlds.world('posc') as db:\n    try:\n        r = %s\n    except (UnitsError, TypeError, ValueError) as e:\n        print('raised', type(e).__name__); raise SystemExit(0)\n    print('returned', r); raise SystemExit(1)\n"
                _loud(part, "C05:Convert:%s->%s" % (u, v), lambda: db.Convert(qt, u, v, 1.5), {}, sn % ("db.Convert(%r, %r, %r, 1.5)" % (qt, u, v)))
                _loud(part, "C05:GetValue:%s->%s" % (u, v), lambda: s.GetValue(v), {}, sn % ("Scalar(1.5, %r).GetValue(%r)" % (u, v)))
                if reps[vqt] == v:
                    _loud(part, "C05:Convert-by-target-type:%s->%s" % (u, v), lambda: db.Convert(vqt, u, v, 1.5), {})
                    _loud(part, "C05:Convert-list:%s->%s" % (u, v), lambda: db.Convert(qt, u, v, [1.5, 2.5]), {})
                    _loud(part, "C05:Convert-ndarray:%s->%s" % (u, v), lambda: db.Convert(qt, u, v, np.array([1.5, 2.5])), {})
                    _loud(part, "C05:GetValues:%s->%s" % (u, v), lambda: arr.GetValues(v), {})
    return part


def _legacy_task(pairs):
    """cross-type requests written with a LEGACY spelling of the foreign unit must be rejected too"""
    part = Part()
    with worlds.world("posc") as db:
        reps = {}
        for u, i in db.unit_to_unit_info.items():
            reps.setdefault(i.quantity_type, u)
        for legacy, current in pairs:
            lqt = db.GetQuantityType(current)
            for qt, r in reps.items():
                if qt == lqt or qt in EXEMPT_QT or lqt in EXEMPT_QT:
                    continue
                c = db.GetDefaultCategory(r)
                if not c:
                    continue
                part.count("nontrivial")
                sn = "import numpy as np\nfrom mc import worlds\nfrom barril.units import *\nfrom barril.units import FractionScalar\nwith worlds.world('posc') as db:\n    try:\n        r = %s\n    except (UnitsError, TypeError, ValueError) as e:\n        print('raised', type(e).__name__); raise SystemExit(0)\n    print('returned', r); raise SystemExit(1)\n"
                sig = "C05:legacy %s (%s) vs %s:" % (legacy, lqt, r)
                _loud(part, sig + "db.Convert to", lambda: db.Convert(qt, r, legacy, 1.5), {}, sn % ("db.Convert(%r, %r, %r, 1.5)" % (qt, r, legacy)))
                _loud(part, sig + "db.Convert from", lambda: db.Convert(qt, legacy, r, 1.5), {}, sn % ("db.Convert(%r, %r, %r, 1.5)" % (qt, legacy, r)))
                _loud(part, sig + "db.Convert by the legacy unit's type", lambda: db.Convert(lqt, r, legacy, 1.5), {}, sn % ("db.Convert(%r, %r, %r, 1.5)" % (lqt, r, legacy)))
                _loud(part, sig + "db.Convert ndarray", lambda: db.Convert(qt, r, legacy, np.array([1.5, 2.5])), {}, sn % ("db.Convert(%r, %r, %r, np.array([1.5, 2.5]))" % (qt, r, legacy)))
                _loud(part, sig + "db.Convert list", lambda: db.Convert(qt, r, legacy, [1.5, 2.5]), {}, sn % ("db.Convert(%r, %r, %r, [1.5, 2.5])" % (qt, r, legacy)))
                _loud(part, sig + "Scalar.GetValue", lambda: Scalar(1.5, r, c).GetValue(legacy), {}, sn % ("Scalar(1.5, %r, %r).GetValue(%r)" % (r, c, legacy)))
                _loud(part, sig + "Array.GetValues", lambda: Array([1.5, 2.5], r, c).GetValues(legacy), {}, sn % ("Array([1.5, 2.5], %r, %r).GetValues(%r)" % (r, c, legacy)))
                _loud(part, sig + "Array[ndarray].GetValues", lambda: Array(np.array([1.5, 2.5]), r, c).GetValues(legacy), {}, sn % ("Array(np.array([1.5, 2.5]), %r, %r).GetValues(%r)" % (r, c, legacy)))
                _loud(part, sig + "FractionScalar.GetValue", lambda: FractionScalar(c, 1.5, r).GetValue(legacy), {}, sn % ("FractionScalar(%r, 1.5, %r).GetValue(%r)" % (c, r, legacy)))
                _loud(part, sig + "Quantity.Convert", lambda: ObtainQuantity(r, c).Convert(1.5, legacy), {}, sn % ("ObtainQuantity(%r, %r).Convert(1.5, %r)" % (r, c, legacy)))
                _loud(part, sig + "CreateCopy(unit)", lambda: Scalar(1.5, r, c).CreateCopy(unit=legacy), {}, sn % ("Scalar(1.5, %r, %r).CreateCopy(unit=%r)" % (r, c, legacy)))
                _loud(part, sig + "Scalar constructor", lambda: Scalar(1.5, legacy, c), {}, sn % ("Scalar(1.5, %r, %r)" % (legacy, c)))
                _loud(part, sig + "ObtainQuantity", lambda: ObtainQuantity(legacy, c), {}, sn % ("ObtainQuantity(%r, %r)" % (legacy, c)))
                _loud(part, sig + "Array constructor", lambda: Array([1.5], legacy, c), {}, sn % ("Array([1.5], %r, %r)" % (legacy, c)))
                _loud(part, sig + "FractionScalar constructor", lambda: FractionScalar(c, 1.5, legacy), {}, sn % ("FractionScalar(%r, 1.5, %r)" % (c, legacy)))
                _loud(part, sig + "Scalar + Scalar", lambda: Scalar(1.5, r, c) + Scalar(1.0, legacy), {}, sn % ("Scalar(1.5, %r, %r) + Scalar(1.0, %r)" % (r, c, legacy)))
                _loud(part, sig + "Scalar < Scalar", lambda: Scalar(1.5, r, c) < Scalar(1.0, legacy), {}, sn % ("Scalar(1.5, %r, %r) < Scalar(1.0, %r)" % (r, c, legacy)))
    return part


_G = {}
OPS6 = [
    ("+", lambda a, b: a + b),
    ("-", lambda a, b: a - b),
    ("<", lambda a, b: a < b),
    ("<=", lambda a, b: a <= b),
    (">", lambda a, b: a > b),
    (">=", lambda a, b: a >= b),
]


def _derived_task(idx):
    states = _G["states"]
    part = Part()
    with worlds.world("posc") as db:
        for ia in idx:
            a = states[ia]
            if not a.dim:
                continue  # dimensionless operands are exempt
            sa = algebra.replay(a.history, algebra.BASIS, algebra.PRIMES)
            snap_a = c13.snap(sa)
            for b in states:
                if not b.dim or b.dimkey == a.dimkey:
                    continue
                sb = algebra.replay(b.history, algebra.BASIS, algebra.PRIMES)
                names = "%s || %s" % (algebra.describe(a.history), algebra.describe(b.history))
                part.count("nontrivial")
                sn = (
                    "from mc import worlds\nfrom barril.units import *\nwith worlds.world('posc'):\n    a = %s\n    b = %s\n    try:\n        r = a %%s b\n"
                    "    except (UnitsError, TypeError, ValueError) as e:\n        print('raised', type(e).__name__); raise SystemExit(0)\n    print('returned', r); raise SystemExit(1)\n"
                    % (algebra.expr(a.history), algebra.expr(b.history))
                )
                for opn, op in OPS6:
                    _loud(part, "C05:derived %s:%s" % (opn, names), lambda: op(sa, sb), {"a": repr(sa), "b": repr(sb)}, sn % opn)
                qa, qb = sa.GetQuantity(), sb.GetQuantity()
                for kind, mk in (("list", list), ("ndarray", np.array), ("tuple", tuple)):
                    for opn, op in OPS6[:2]:
                        _loud(part, "C05:derived-array-%s %s:%s" % (kind, opn, names), lambda: op(Array(qa, mk([1.0, 2.0])), Array(qb, mk([3.0, 4.0]))), {"a": repr(sa), "b": repr(sb)})
                        # ... also when there is nothing to add: the dimensions of EMPTY arrays are compared as well
                        _loud(part, "C05:derived-array-%s (empty) %s:%s" % (kind, opn, names), lambda: op(Array(qa, mk([])), Array(qb, mk([]))), {"a": repr(sa), "b": repr(sb)})
                        _loud(part, "C05:derived-array-%s (one element) %s:%s" % (kind, opn, names), lambda: op(Array(qa, mk([1.0])), Array(qb, mk([3.0]))), {"a": repr(sa), "b": repr(sb)})
                if c13.snap(sa) != snap_a:
                    part.violation("C05:operand-changed:" + names, {"before": snap_a, "after": c13.snap(sa)})
    return part


# -- (b) histories ------------------------------------------------------------------------------------


class Env:
    """Persistent operands of one history."""

    def __init__(self, db):
        self.db = db
        self.s_m = Scalar(2.0, "m", "length")
        self.s_cm = Scalar(300.0, "cm", "depth")
        self.s_s = Scalar(4.0, "s", "time")
        self.s_m2 = self.s_m * self.s_m
        self.s_mps = self.s_m / self.s_s
        self.a_m = Array([1.0, 2.0], "m", "length")
        self.a_s = Array(np.array([3.0, 4.0]), "s", "time")
        self.fs_m = FractionScalar("length", FractionValue(5, (1, 2)), "m")
        self.fs_s = FractionScalar("time", FractionValue(2, (1, 4)), "s")
        # a derived quantity holding two units of ONE quantity type under two categories (only creatable
        # directly; arithmetic unifies the units) and a compatible partner for it
        from collections import OrderedDict

        from barril.units import Quantity

        self.s_mix = Scalar(Quantity.CreateDerived(OrderedDict([("length", ["m", 1]), ("depth", ["cm", 1])])), 2.0)
        self.s_md = self.s_m * Scalar(1.0, "m", "depth")
        self.a_mix = Array(self.s_mix.GetQuantity(), np.array([2.0, 4.0]))
        self.members = [self.s_m, self.s_cm, self.s_s, self.s_m2, self.s_mps, self.a_m, self.a_s, self.fs_m, self.fs_s, self.s_mix, self.s_md, self.a_mix]

    def snapshot(self):
        return tuple(c13.snap(o) for o in self.members)


VALID = [
    ("Scalar(1,'m','depth')", lambda e: Scalar(1.0, "m", "depth")),
    ("Scalar(1,'s')", lambda e: Scalar(1.0, "s")),
    ("ObtainQuantity('cm','length')", lambda e: ObtainQuantity("cm", "length")),
    ("s_m.GetValue('cm')", lambda e: e.s_m.GetValue("cm")),
    ("db.Convert('time','s','min',120)", lambda e: e.db.Convert("time", "s", "min", 120.0)),
    ("s_m+s_cm", lambda e: e.s_m + e.s_cm),
    ("s_m*s_s", lambda e: e.s_m * e.s_s),
    ("s_m2/s_m", lambda e: e.s_m2 / e.s_m),
    ("s_m<s_cm", lambda e: e.s_m < e.s_cm),
    ("a_m+a_m", lambda e: e.a_m + e.a_m),
    ("a_m.GetValues('km')", lambda e: e.a_m.GetValues("km")),
    ("s_m.IsValid()", lambda e: e.s_m.IsValid()),
    ("s_m.CreateCopy(unit='km')", lambda e: e.s_m.CreateCopy(unit="km")),
    ("s_mix+s_md", lambda e: e.s_mix + e.s_md),
    ("s_md-s_mix", lambda e: e.s_md - e.s_mix),
]
INVALID = [
    ("Scalar(1,'s','length')", lambda e: Scalar(1.0, "s", "length")),
    ("Scalar(1,'m','time')", lambda e: Scalar(1.0, "m", "time")),
    ("ObtainQuantity('m','time')", lambda e: ObtainQuantity("m", "time")),
    ("ObtainQuantity('kg','depth')", lambda e: ObtainQuantity("kg", "depth")),
    ("Array([1],'kg','depth')", lambda e: Array([1.0], "kg", "depth")),
    ("FractionScalar('length',1.0,'s')", lambda e: FractionScalar("length", 1.0, "s")),
    ("s_m.CreateCopy(unit='s')", lambda e: e.s_m.CreateCopy(unit="s")),
    ("db.Convert('length','m','s',1)", lambda e: e.db.Convert("length", "m", "s", 1.0)),
    ("db.Convert('time','s','m',[1,2])", lambda e: e.db.Convert("time", "s", "m", [1.0, 2.0])),
    ("s_m.GetValue('kg')", lambda e: e.s_m.GetValue("kg")),
    ("a_m.GetValues('s')", lambda e: e.a_m.GetValues("s")),
    ("s_m+s_s", lambda e: e.s_m + e.s_s),
    ("s_s-s_m", lambda e: e.s_s - e.s_m),
    ("s_m<s_s", lambda e: e.s_m < e.s_s),
    ("s_m>=s_s", lambda e: e.s_m >= e.s_s),
    ("a_m+a_s", lambda e: e.a_m + e.a_s),
    ("s_m2+s_m", lambda e: e.s_m2 + e.s_m),
    ("s_mps<s_m", lambda e: e.s_mps < e.s_m),
    ("fs_m<fs_s", lambda e: e.fs_m < e.fs_s),
    ("fs_m.GetValue('s')", lambda e: e.fs_m.GetValue("s")),
    ("s_mix-s_s", lambda e: e.s_mix - e.s_s),
    ("s_mix+s_m", lambda e: e.s_mix + e.s_m),
    ("a_mix+a_s", lambda e: e.a_mix + e.a_s),
    ("s_mix<s_s", lambda e: e.s_mix < e.s_s),
]
HOPS = VALID + INVALID
N_VALID = len(VALID)


def positive_cache(db):
    try:
        q = tuple(sorted((repr(k), c15.canonical(v)) for k, v in db.quantities_cache.items()))
        m = tuple(sorted(k for k, v in db._category_unit_valid.items() if v))
        return (q, m)
    except AttributeError:
        return None


_REG = {}


def run_history(db, h, part, judge_from=0):
    """Executes history h (tuple of op indices) on reset caches; returns list of outcomes."""
    worlds.clear_caches(db)
    worlds.reset_globals()
    env = Env(db)
    if "fp" not in _REG:
        _REG["fp"] = c14.fingerprint(db)
    outs = []
    for pos, oi in enumerate(h):
        name, f = HOPS[oi]
        before = env.snapshot() if part is not None else None
        try:
            out = ("ok", c15.canonical(f(env)))
        except Exception as e:
            out = ("raise", type(e).__name__, isinstance(e, LOUD))
        outs.append(out)
        if part is not None and pos >= judge_from:
            part.count("evaluations")
            sig = "C05:history:" + " ; ".join(HOPS[i][0] for i in h[: pos + 1])
            snippet = "import sys\nfrom mc.props import c05\nsys.exit(c05.replay(%r))\n" % ([HOPS[i][0] for i in h[: pos + 1]],)
            if env.snapshot() != before:
                part.violation(sig + " :: operand changed", {"before": before, "after": env.snapshot()}, snippet)
            if oi >= N_VALID:
                part.count("rejected")
                if out[0] != "raise" or not out[2]:
                    part.violation(sig + " :: incompatible operation did not fail loudly", {"outcome": out}, snippet)
    return outs


_MEMO = {}


def _hist_task(task):
    depth, firsts = task
    part = Part()
    with worlds.world("posc") as db:
        for first in firsts:
            for n in range(1, depth + 1):
                for rest in itertools.product(range(len(HOPS)), repeat=n - 1):
                    h = (first,) + rest
                    outs = run_history(db, h, part, judge_from=len(h) - 1)
                    part.count("transitions")
                    part.add("outcomes", outs[-1][:2])
                    clean = tuple(i for i in h[:-1] if i < N_VALID) + (h[-1],)
                    if clean != h:
                        part.count("nontrivial")
                        ref = _MEMO.get(clean)
                        if ref is None:
                            ref = _MEMO[clean] = run_history(db, clean, None)[-1]
                        if outs[-1] != ref:
                            part.violation(
                                "C05:history:" + " ; ".join(HOPS[i][0] for i in h) + " :: outcome differs from the history without the rejected steps",
                                {"with_rejected_steps": outs[-1], "without": ref, "clean_history": [HOPS[i][0] for i in clean]},
                                "import sys\nfrom mc.props import c05\nsys.exit(c05.replay(%r))\n" % ([HOPS[i][0] for i in h],),
                            )
            # registry untouched by everything above
            if c14.fingerprint(db) != _REG["fp"]:
                part.violation("C05:history: registry changed by histories starting with %s" % HOPS[first][0], {})
                _REG["fp"] = c14.fingerprint(db)
        part.sample({"history": [HOPS[i][0] for i in h]}, cap=1)
    return part


def replay(names):
    part = Part()
    idx = tuple([n for n, _f in HOPS].index(x) for x in names)
    with worlds.world("posc") as db:
        outs = run_history(db, idx, part)
        clean = tuple(i for i in idx[:-1] if i < N_VALID) + (idx[-1],)
        ref = run_history(db, clean, None)
        for n, o in zip(names, outs):
            print(n, "->", o)
        print("without rejected steps:", [HOPS[i][0] for i in clean], "->", ref[-1])
        if outs[-1] != ref[-1]:
            part.violation("differential", {"with": outs[-1], "without": ref[-1]})
    for v in part.violations:
        print("MISMATCH", v["signature"], v["detail"])
    return 1 if part.violations else 0


REREG_FORMS = [
    ("Scalar(1.0, u, c)", lambda u, c: Scalar(1.0, u, c)),
    ("Scalar(1.0, u)", lambda u, c: Scalar(1.0, u)),
    ("Array([1.0], u, c)", lambda u, c: Array([1.0], u, c)),
    ("Array([1.0], u)", lambda u, c: Array([1.0], u)),
    ("ObtainQuantity(u, c)", lambda u, c: ObtainQuantity(u, c)),
    ("ObtainQuantity(u)", lambda u, c: ObtainQuantity(u)),
    ("FractionScalar(1.0, u)", lambda u, c: FractionScalar(1.0, u)),
    ("Scalar(ObtainQuantity(u), 1.0)", lambda u, c: Scalar(ObtainQuantity(u), 1.0)),
]


def _rereg_task(_):
    """A category changes its quantity type (AddCategory(..., override=True)): afterwards the units of the OLD type do
    not belong to it, so every way of building a value of that category with one of them fails loudly - with the
    category spelled out or resolved from the unit, whether or not the same lookups were served before the
    re-registration - and the rejections change nothing.  Small hand-registered database, every ordered pair of
    (old type, new type), four kinds of earlier use."""
    part = Part()
    types = {"length": ["m", "cm", "km"], "time": ["s", "min"], "temperature": ["K", "degC"]}
    for old in types:
        for new in types:
            if old == new:
                continue
            for first in ("nothing first", "category-less lookups first", "lookups with the category first", "category-less lookups of one unit first"):
                db = worlds.mini("base")
                with worlds.installed(db):
                    units = [u for u in types[old] if u in db.unit_to_unit_info]
                    seen = units if "one unit" not in first else units[:1]
                    if not first.startswith("nothing"):
                        for u in seen:
                            for fname, f in REREG_FORMS:
                                if ("u, c" in fname) == first.startswith("lookups with"):
                                    f(u, old)
                    db.AddCategory(old, new, override=True)
                    fp = c14.fingerprint(db)
                    for u in units:
                        for fname, f in REREG_FORMS:
                            sig = "C05:category %s re-registered as %s (%s): %s with u=%s" % (old, new, first, fname, u)
                            snippet = ("from mc import worlds\nfrom barril.units import *\nfrom barril.units import ObtainQuantity\ndb = worlds.mini('base')\nwith worlds.installed(db):\n"
                                       + "".join("    %s\n" % g.replace("u", repr(w)).replace(", c", ", %r" % old) for w in seen for g, _f in REREG_FORMS if not first.startswith("nothing") and (("u, c" in g) == first.startswith("lookups with")))
                                       + "    db.AddCategory(%r, %r, override=True)\n    try:\n        r = %s\n    except Exception as e:\n        print('raised', repr(e))\n    else:\n        raise SystemExit('built %%r' %% (r,))\n" % (old, new, fname.replace("u", repr(u)).replace(", c", ", %r" % old)))
                            _loud(part, sig, lambda: f(u, old), {"unit": u, "category": old, "category_quantity_type_now": new}, snippet)
                    for w in types[new]:
                        part.count("evaluations")
                        try:
                            ok = Scalar(2.0, w, old).GetQuantityType() == new
                        except Exception as e:
                            ok = repr(e)
                        if ok is not True:
                            part.violation("C05:category %s re-registered as %s (%s): a unit of the new type is not accepted: %s" % (old, new, first, w), {"outcome": ok})
                    if c14.fingerprint(db) != fp:
                        part.violation("C05:category %s re-registered as %s (%s): the rejected constructions changed the registry" % (old, new, first), {})
                    part.count("reregistration_histories")
    return part


def _dispatch(task):
    return {"rereg": _rereg_task, "legacy": _legacy_task, "construct": _construct_task, "convert": _convert_task, "derived": _derived_task, "hist": _hist_task}[task[0]](task[1])


def run(ctx):
    depth = 4 if ctx.thorough else 3
    with worlds.world("posc") as db:
        cats = sorted(db.IterCategories())
        units = sorted(db.unit_to_unit_info)
        graph, _t = algebra.explore(db, 2, reciprocals=True)
    _G["states"] = graph
    tasks = [("construct", c) for c in chunks(cats, 32)]
    tasks += [("convert", (c, ctx.thorough)) for c in chunks(units, 64)]
    tasks += [("derived", c) for c in chunks(range(len(graph)), 16)]
    from .c16 import legacy_spellings

    tasks += [("legacy", c) for c in chunks(legacy_spellings(set(units)), 16)]
    tasks += [("hist", (depth, [i])) for i in range(len(HOPS))]
    tasks.append(("rereg", None))
    run_sharded(ctx, _dispatch, tasks)
    c = ctx.part.counters
    ctx.level = "model_checking"
    ctx.states = c.get("transitions", 0)
    ctx.transitions = c.get("transitions", 0)
    ctx.traces = c.get("transitions", 0)
    ctx.rule = (
        "(a) every cross-type (unit, category) of posc through the constructors, every cross-type unit pair (%s) through the conversions, every derivable legacy spelling x every foreign quantity type through 17 conversion / construction / arithmetic entry points, every ordered pair of depth-2 derived states with different dimension vectors through + - < <= > >=; "
        "(b) every sequence of length <= %d over %d valid and %d invalid operations (no de-duplication); non-trivial = cross-type inputs + histories that contain a rejected step before the judged one; outcomes = distinct exception classes / canonical outcomes; "
        "(c) a category re-registered with another quantity type (override=True) on a small database: 6 ordered type pairs x 4 kinds of earlier use x every unit of the old type x 8 construction forms"
        % ("all pairs" if ctx.thorough else "one representative target per foreign type", depth, len(VALID), len(INVALID))
    )
    ctx.coverage_extra = {
        "max_depth": depth,
        "histories": c.get("transitions", 0),
        "rejected_steps_judged": c.get("rejected", 0),
        "alphabet": {"valid_operations": [n for n, _f in VALID], "invalid_operations": [n for n, _f in INVALID]},
    }
    ctx.assumptions = [
        "exempt and not judged either way: an operand with the empty quantity, quantity type 'Unknown'",
        "a negative memo entry written by a rejected lookup is not counted as a change (unobservable unless a registration follows, which is C15's subject)",
        "loud = UnitsError (incl. subclasses), TypeError or ValueError",
    ]
