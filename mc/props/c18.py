"""
C18  Fractional values keep their numeric meaning.

(A) Fraction vs exact rational arithmetic (fractions.Fraction): all ordered pairs of 16 (num, den)
    values (ints, short decimals, negative denominators, zero) x + - * / % and six comparisons, mixed
    with ints and floats on both sides, ** for exponents -2..3, abs, neg, float, inv, copy, reduce,
    numerator/denominator setters.
(B) FractionValue = number + numerator/denominator: float(), six comparisons over all ordered pairs
    of a subset, str -> CreateFromString (locale and non-locale) and copy exactly.
(C) CreateFromFloat: every n/10^k (|n| <= 10^4, k = 0..4) and every i + p/q (q <= 64 with a finite
    decimal expansion of <= 8 significant digits): float(result) within 1e-12 relative.
(D) FractionScalar vs Scalar(float(value)): every ordered unit pair of every quantity type x
    fraction values: GetValue(v), db.Convert of a FractionValue, order comparisons.  The recorded
    class D11b (converted numerator quantised by Fraction.__init__ with an absolute 1e-8
    tolerance) is attributed only when the defect model reproduces the observed float exactly.
"""
import copy
import itertools
import math
import operator
from fractions import Fraction as Q

from barril.basic.fraction import Fraction, FractionValue
from barril.units import FractionScalar, Scalar

from .. import worlds
from ..par import run_sharded
from ..runner import Part

CMP = [("<", operator.lt), ("<=", operator.le), (">", operator.gt), (">=", operator.ge), ("==", operator.eq), ("!=", operator.ne)]
ARITH = [("+", operator.add), ("-", operator.sub), ("*", operator.mul), ("/", operator.truediv), ("%", operator.mod)]

FR = [(1, 2), (2, 4), (3, 4), (-3, 4), (3, -4), (-1, -3), (0, 5), (7, 1), (5, None), (0.5, 3), (2.25, 4), (1, 0.5), (-1.5, 0.25), (10, 3), (1, 64), (123, 1000), (0.3, None), (0.7, 3), (-1.1, 7), (12.34, -5)]
NUMS = [0, 1, -2, 3, 0.5, -0.25, 2.5]


def q_of(a, b=None):
    """exact rational of what the arguments are written as"""
    qa = Q(repr(a)) if isinstance(a, float) else Q(a)
    if b is None:
        return qa
    qb = Q(repr(b)) if isinstance(b, float) else Q(b)
    return qa / qb


def _run(f):
    try:
        return ("ok", f())
    except ZeroDivisionError:
        return ("raise", "ZeroDivisionError")
    except Exception as e:
        return ("raise", type(e).__name__ + ": " + str(e)[:80])


def _fr_expr(t):
    return "Fraction(%r)" % (t[0],) if t[1] is None else "Fraction(%r, %r)" % t


def _fraction_part(part):
    pre = "from barril.basic.fraction import Fraction\n"
    for ta in FR:
        qa = q_of(*ta)
        a = Fraction(*ta) if ta[1] is not None else Fraction(ta[0])
        part.count("evaluations")
        if a.x != qa or float(a) != float(qa):
            part.violation("C18:Fraction:%s denotes another rational" % _fr_expr(ta), {"got": repr(a), "want": str(qa)}, pre + "f = %s\nprint(repr(f)); assert repr(f) == %r\n" % (_fr_expr(ta), repr(qa)))
        # unary
        for name, f, want in (
            ("abs", lambda: abs(Fraction(*ta) if ta[1] is not None else Fraction(ta[0])).x, abs(qa)),
            ("neg", lambda: (-a).x, -qa),
            ("float", lambda: float(a), float(qa)),
            ("copy", lambda: a.copy().x, qa),
            ("copy.copy", lambda: copy.copy(a).x, qa),
            ("numerator", lambda: a.numerator, qa.numerator),
            ("denominator", lambda: a.denominator, qa.denominator),
            ("tuple", lambda: tuple(a), (qa.numerator, qa.denominator)),
        ):
            part.count("evaluations")
            r = _run(f)
            if r != ("ok", want):
                part.violation("C18:Fraction:%s(%s)" % (name, _fr_expr(ta)), {"got": repr(r), "want": str(want)})
        r = _run(lambda: a.inv().x)
        want = ("ok", 1 / qa) if qa != 0 else ("raise", "ZeroDivisionError")
        part.count("evaluations")
        if r != want:
            part.violation("C18:Fraction:inv(%s)" % _fr_expr(ta), {"got": repr(r), "want": repr(want)})
        for e in range(-2, 4):
            part.count("evaluations")
            r = _run(lambda: (a**e).x)
            want = ("raise", "ZeroDivisionError") if (qa == 0 and e < 0) else ("ok", qa**e)
            if r[0] == "raise" and want[0] == "raise":
                r = want  # a division by zero must be rejected; the exception class is not specified
            if r != want:
                part.violation("C18:Fraction:%s ** %d" % (_fr_expr(ta), e), {"got": repr(r), "want": repr(want)}, pre + "print(repr(%s ** %d)); assert repr(%s ** %d) == %r\n" % (_fr_expr(ta), e, _fr_expr(ta), e, repr(want[1])))
            part.add("outcomes", ("pow", r[0]))
        # setters
        for newnum in (5, -3, 0.5):
            part.count("evaluations")
            b = a.copy()
            b.numerator = newnum
            want = q_of(newnum) / qa.denominator
            if b.x != want:
                part.violation("C18:Fraction:%s.numerator = %r" % (_fr_expr(ta), newnum), {"got": repr(b), "want": str(want)})
        for newden in (4, -2, 0.5, 0.25):
            part.count("evaluations")
            b = a.copy()
            r = _run(lambda: setattr(b, "denominator", newden))
            want = qa.numerator / q_of(newden)
            if r[0] != "ok" or b.x != want:
                part.violation("C18:Fraction:%s.denominator = %r" % (_fr_expr(ta), newden), {"got": repr(b), "outcome": repr(r), "want": str(want)})
        # histories on ONE object: read it (float / str / comparison), edit it in place through every edit form (the two
        # property setters and the index form f[0] = v / f[1] = v), read it again: an edited fraction behaves exactly as
        # the fraction built anew from the same numerator and denominator (nothing remembered from before the edit)
        for form, key in (("numerator = %r", 0), ("[0] = %r", 0), ("denominator = %r", 1), ("[1] = %r", 1)):
            for v in (5, -3, 0.5, 4):
                if form.startswith("[") and isinstance(v, float):
                    continue  # (the index form takes integers only: a float there fails loudly with a TypeError, outside this property)
                part.count("evaluations")
                b = a.copy()
                reads_before = (float(b), str(b), b == a, tuple(b), repr(b))
                nd = [b.numerator, b.denominator]
                nd[key] = v
                try:
                    if form.startswith("["):
                        b[key] = v
                    else:
                        setattr(b, "numerator" if key == 0 else "denominator", v)
                    fresh = Fraction(*nd)
                    obs = lambda f: (float(f), str(f), repr(f), tuple(f), float(f + 1), float(f * 2), f == Fraction(*nd), f < Fraction(*nd), f > a, abs(f) == abs(Fraction(*nd)))  # noqa: E731
                    got, want2 = obs(b), obs(fresh)
                except Exception as e:
                    got, want2 = repr(e), None
                if got != want2:
                    part.violation("C18:Fraction:%s read, then .%s, then read again: differs from the fraction built anew" % (_fr_expr(ta), form % (v,)), {"edited": got, "built_anew": want2, "reads_before": reads_before},
                                   pre + "f = %s\nfloat(f); str(f)\nf%s\ng = Fraction(%r, %r)\nprint(float(f), float(g), str(f), str(g)); assert float(f) == float(g) and str(f) == str(g)\n" % (_fr_expr(ta), ("." if not form.startswith("[") else "") + form % (v,), nd[0], nd[1]))
        # binary with fractions
        for tb in FR:
            qb = q_of(*tb)
            b = Fraction(*tb) if tb[1] is not None else Fraction(tb[0])
            part.add("nontrivial", (ta, tb))
            for name, op in ARITH:
                part.count("evaluations")
                r = _run(lambda: op(a, b).x)
                want = ("raise", "ZeroDivisionError") if (qb == 0 and name in "/%") else ("ok", op(qa, qb))
                if r != want:
                    part.violation("C18:Fraction:%s %s %s" % (_fr_expr(ta), name, _fr_expr(tb)), {"got": repr(r), "want": repr(want)},
                                   pre + "r = %s %s %s\nprint(repr(r)); assert repr(r) == %r\n" % (_fr_expr(ta), name, _fr_expr(tb), repr(want[1])))
                part.add("outcomes", (name, r[0]))
            for name, op in CMP:
                part.count("evaluations")
                r = _run(lambda: op(a, b))
                if r != ("ok", op(qa, qb)):
                    part.violation("C18:Fraction:%s %s %s" % (_fr_expr(ta), name, _fr_expr(tb)), {"got": repr(r), "want": op(qa, qb)},
                                   pre + "r = %s %s %s\nprint(r); assert r == %r\n" % (_fr_expr(ta), name, _fr_expr(tb), op(qa, qb)))
                part.add("outcomes", (name, r[1] if r[0] == "ok" else "raise"))
        # mixed with numbers, both sides
        for k in NUMS:
            qk = q_of(k)
            for name, op in ARITH:
                for side in ("right", "left"):
                    if name == "%" and side == "left":
                        continue  # number % Fraction is not offered
                    part.count("evaluations")
                    if side == "right":
                        r = _run(lambda: op(a, k).x)
                        want = ("raise", "ZeroDivisionError") if (qk == 0 and name in "/%") else ("ok", op(qa, qk))
                    else:
                        r = _run(lambda: op(k, a).x)
                        want = ("raise", "ZeroDivisionError") if (qa == 0 and name == "/") else ("ok", op(qk, qa))
                    if r != want:
                        part.violation("C18:Fraction:%s %s %r (number on the %s)" % (_fr_expr(ta), name, k, side), {"got": repr(r), "want": repr(want)},
                                       pre + ("r = %s %s %r\n" % (_fr_expr(ta), name, k) if side == "right" else "r = %r %s %s\n" % (k, name, _fr_expr(ta))) + "print(repr(r)); assert repr(r) == %r\n" % (repr(want[1]),))
        for k in NUMS + [float("inf"), float("-inf")]:
            qk = q_of(k) if k == k and abs(k) != float("inf") else k  # a rational compares with an infinity like any number
            for name, op in CMP:
                for side in ("right", "left"):
                    part.count("evaluations")
                    r = _run(lambda: op(a, k) if side == "right" else op(k, a))
                    want = op(qa, qk) if side == "right" else op(qk, qa)
                    if r != ("ok", want):
                        part.violation("C18:Fraction:%s %s %r (number on the %s)" % (_fr_expr(ta), name, k, side), {"got": repr(r), "want": want})


FV_NUMBERS = [0, 1, -1, 5, 12, -7, 0.5, 2.25, -3.75, 100, 99999.5]
FV_NUMERATORS = [0, 1, 3, -1, 0.5, 2.5, 7]


def _fv_denote(n, num, den):
    return q_of(n) + q_of(num) / den


def _fraction_value_part(task):
    dens, step = task
    part = Part()
    pre = "from barril.basic.fraction import Fraction, FractionValue\n"
    allv = []
    for den in dens:
        for n in FV_NUMBERS:
            for num in FV_NUMERATORS:
                part.count("evaluations")
                fv = FractionValue(n, (num, den))
                want = _fv_denote(n, num, den)
                sig = "C18:FractionValue(%r, (%r, %r))" % (n, num, den)
                f = float(fv)
                if abs(f - float(want)) > 1e-12 * max(abs(float(want)), 1e-300):
                    part.violation(sig + ":float", {"got": f, "want": float(want)}, pre + "v = FractionValue(%r, (%r, %r))\nprint(float(v)); assert abs(float(v) - %r) <= 1e-12 * abs(%r)\n" % (n, num, den, float(want), float(want)))
                # copy: equal, independent
                c = copy.copy(fv)
                if not (c == fv) or c is fv or c.GetFraction() is fv.GetFraction() or float(c) != f:
                    part.violation(sig + ":copy", {"copy": repr(c)})
                # format then parse (numbers %g prints positionally with <= 6 significant digits)
                for consider_locale in (True, False):
                    part.count("evaluations")
                    s = str(fv)
                    r = _run(lambda: FractionValue.CreateFromString(s, consider_locale))
                    ok = r[0] == "ok" and q_of(r[1].GetNumber()) + r[1].GetFraction().x == want and r[1] == fv
                    if not ok:
                        part.violation(sig + ":str then CreateFromString(consider_locale=%r)" % consider_locale, {"text": s, "parsed": repr(r[1])},
                                       pre + "v = FractionValue(%r, (%r, %r))\np = FractionValue.CreateFromString(str(v), %r)\nprint(str(v), repr(p)); assert p == v\n" % (n, num, den, consider_locale))
                # what a parse returned belongs to the caller: edit its fraction in place and parse again
                if den in (1, 2) and num in (0, 1):
                    for consider_locale in (True, False):
                        part.count("evaluations")
                        first = FractionValue.CreateFromString(str(fv), consider_locale)
                        first.fraction.numerator = 3
                        first.fraction.denominator = 4
                        first.number = 40
                        second = FractionValue.CreateFromString(str(fv), consider_locale)
                        plain = FractionValue.CreateFromString("7", consider_locale)
                        if not (second == fv) or float(plain) != 7.0 or float(FractionValue(7)) != 7.0 or float(FractionValue.CreateFromFloat(7.0)) != 7.0:
                            part.violation(sig + ":a parsed value edited by the caller changes what is parsed / created afterwards", {"second": repr(second), "plain 7": repr(plain)},
                                           pre + "a = FractionValue.CreateFromString('5')\na.fraction.numerator = 3; a.fraction.denominator = 4\nb = FractionValue.CreateFromString('7')\nprint(repr(b), float(b)); assert float(b) == 7.0\n")
                # one FractionValue read, edited in place (through the value's setters, or through the Fraction object it
                # hands out: setters and index form), and read again: equal in every observable to the value built anew
                if den in (2, 4) and n in (0, 2, -3):
                    for ename, edit, newargs in (
                        ("v.fraction.numerator = 3", lambda v: setattr(v.fraction, "numerator", 3), lambda n0, u0, d0: (n0, (3, d0))),
                        ("v.fraction[0] = 3", lambda v: v.fraction.__setitem__(0, 3), lambda n0, u0, d0: (n0, (3, d0))),
                        ("v.fraction.denominator = 8", lambda v: setattr(v.fraction, "denominator", 8), lambda n0, u0, d0: (n0, (u0, 8))),
                        ("v.fraction[1] = 8", lambda v: v.fraction.__setitem__(1, 8), lambda n0, u0, d0: (n0, (u0, 8))),
                        ("v.GetFraction()[0] = 3", lambda v: v.GetFraction().__setitem__(0, 3), lambda n0, u0, d0: (n0, (3, d0))),
                        ("v.number = 9", lambda v: setattr(v, "number", 9), lambda n0, u0, d0: (9, (u0, d0))),
                        ("v.SetFraction((3, 8))", lambda v: v.SetFraction((3, 8)), lambda n0, u0, d0: (n0, (3, 8))),
                        ("v.fraction = Fraction(3, 8)", lambda v: setattr(v, "fraction", Fraction(3, 8)), lambda n0, u0, d0: (n0, (3, 8))),
                    ):
                        part.count("evaluations")
                        v1 = FractionValue(n, (num, den))
                        before = (float(v1), str(v1), v1 == fv, v1 < fv)
                        u0, d0 = v1.fraction.numerator, v1.fraction.denominator
                        try:
                            edit(v1)
                            anew = FractionValue(*newargs(n, u0, d0))
                            obs = lambda w: (float(w), str(w), repr(w), w.GetLabel() if hasattr(w, "GetLabel") else None, w == anew, w < fv, w > fv, w <= anew, float(w + 1) if hasattr(w, "__add__") else None)  # noqa: E731
                            got, want2 = obs(v1), obs(FractionValue(*newargs(n, u0, d0)))
                        except Exception as e:
                            got, want2 = repr(e), None
                        if got != want2:
                            part.violation(sig + ":read, then %s, then read again: differs from the value built anew" % ename, {"edited": got, "built_anew": want2, "reads_before": before},
                                           pre + "v = FractionValue(%r, (%r, %r))\nfloat(v); str(v)\n%s\nw = FractionValue(*%r)\nprint(float(v), float(w), str(v), str(w)); assert float(v) == float(w) and str(v) == str(w)\n" % (n, num, den, ename, newargs(n, u0, d0)))
                if num != 0:
                    part.add("nontrivial", (n, num, den))
                part.add("outcomes", ("fv", float(want) < 0, num == 0))
                allv.append((n, num, den, want, f))
    # comparisons: all ordered pairs of this shard's subset (every 3rd value) incl. across denominators
    sub = allv[::step]
    for (n1, u1, d1, w1, f1), (n2, u2, d2, w2, f2) in itertools.product(sub, repeat=2):
        if w1 == w2 and f1 != f2:
            part.count("ties_differing_by_rounding_skipped")
            continue
        if w1 != w2 and abs(float(w1 - w2)) <= 1e-9 * max(abs(float(w1)), abs(float(w2))):
            continue
        a, b = FractionValue(n1, (u1, d1)), FractionValue(n2, (u2, d2))
        for name, op in CMP[:4]:
            part.count("evaluations")
            r = _run(lambda: op(a, b))
            if r != ("ok", op(w1, w2)):
                part.violation("C18:FractionValue(%r, (%r, %r)) %s FractionValue(%r, (%r, %r))" % (n1, u1, d1, name, n2, u2, d2), {"got": repr(r), "want": op(w1, w2)},
                               pre + "a, b = FractionValue(%r, (%r, %r)), FractionValue(%r, (%r, %r))\nprint(a %s b); assert (a %s b) == %r\n" % (n1, u1, d1, n2, u2, d2, name, name, op(w1, w2)))
    return part


def _from_float_task(task):
    kind, lo, hi, kmax = task
    part = Part()
    pre = "from barril.basic.fraction import FractionValue\n"
    seen = set()

    def check(x, origin):
        if x in seen:
            return
        seen.add(x)
        part.count("evaluations")
        r = _run(lambda: FractionValue.CreateFromFloat(x))
        if r[0] != "ok":
            part.violation("C18:CreateFromFloat(%r):raised" % x, {"error": r[1]}, pre + "print(FractionValue.CreateFromFloat(%r))\n" % x)
            return
        fv = r[1]
        f = float(fv)
        if abs(f - x) > 1e-12 * abs(x):
            part.violation("C18:CreateFromFloat(%r):another amount" % x, {"got": repr(fv), "float": f, "origin": origin},
                           pre + "v = FractionValue.CreateFromFloat(%r)\nprint(repr(v), float(v)); assert abs(float(v) - %r) <= 1e-12 * abs(%r)\n" % (x, x, x))
        part.add("outcomes", (float(fv.GetFraction()) == 0.0, x < 0))
        if float(fv.GetFraction()) != 0.0:
            part.count("nontrivial")
        # the same short decimal as the numerator of a Fraction denotes exactly the decimal written
        if "e" in repr(x) or len(repr(x).replace(".", "").replace("-", "").strip("0")) > 8:
            return  # beyond the 8 significant decimals the property speaks of
        part.count("evaluations")
        r = _run(lambda: Fraction(x).x)
        if r != ("ok", Q(repr(x))):
            part.violation("C18:Fraction(%r) denotes another rational" % x, {"got": repr(r), "want": str(Q(repr(x)))}, "from barril.basic.fraction import Fraction\nf = Fraction(%r)\nprint(repr(f)); assert repr(f) == %r\n" % (x, repr(Q(repr(x)))))

    if kind == "contexts":
        # the caller's decimal context is process state the library must not depend on
        import decimal

        for prec, rounding in ((4, decimal.ROUND_HALF_EVEN), (6, decimal.ROUND_UP), (9, decimal.ROUND_DOWN), (3, decimal.ROUND_CEILING)):
            with decimal.localcontext() as c:
                c.prec = prec
                c.rounding = rounding
                seen.clear()
                for x in (3.1415926, 1234.5678, 0.375, -0.375, 99999.5, 12.0625, 8e-05, 1.1e-05, 0.123456789, 5.1, 1e-07 + 1.0, 250.015625):
                    check(x, "decimal context prec=%d %s" % (prec, rounding))
        return part
    if kind == "decimal":
        for n in range(lo, hi):
            for k in range(kmax + 1):
                for s in (1, -1):
                    check(s * n / 10.0**k, "n/10^k")
    else:
        for q in range(lo, hi):
            qq = q
            while qq % 2 == 0:
                qq //= 2
            while qq % 5 == 0:
                qq //= 5
            if qq != 1:
                continue
            for p in range(1, q):
                for i in (0, 1, 7, 12, 150):
                    x = i + p / q
                    if len(repr(x).replace(".", "").lstrip("0")) > 8:
                        continue
                    check(x, "i + p/q")
                    check(-x, "i + p/q")
    return part


# -- FractionScalar vs Scalar --------------------------------------------------------------------

FS_VALUES = [(5, (1, 2)), (0, (3, 4)), (-2, (1, 3)), (12.5, (0, 1)), (100, (7, 64))]


def quantised(a):
    """defect model D11b: a float numerator as Fraction.__init__ stores it"""
    if a == float("inf") or a == float("-inf") or a != a:
        raise ValueError
    b = 1
    n = 0
    while abs(a - round(a)) > 1e-8:
        a *= 10
        b *= 10
        n += 1
        if n > 400:
            raise ValueError
    return Q(round(a), b)


def _fs_task(task):
    qts, all_values = task
    part = Part()
    values = FS_VALUES if all_values else FS_VALUES[:3]
    with worlds.world("posc") as db:
        for qt in qts:
            units = db.GetUnits(qt)
            foreign_pairs = {(u, v) for u in units[:4] for v in units[:4]}
            for u in units:
                c = db.GetDefaultCategory(u)
                if not c:
                    continue
                for v in units:
                    part.count("unit_pairs")
                    zero = db.Convert(qt, u, v, 0.0)
                    for n, (num, den) in values:
                        part.count("evaluations")
                        fv = FractionValue(n, (num, den))
                        x = float(fv)
                        sig = "C18:FractionScalar(%r %r/%r %s) -> %s" % (n, num, den, u, v)
                        sn = (
                            "from mc import worlds\nfrom barril.units import *\nfrom barril.units import FractionScalar\nfrom barril.basic.fraction import FractionValue\nwith worlds.world('posc'):\n"
                            "    fv = FractionValue(%r, (%r, %r))\n    a = float(FractionScalar(%r, fv, %r).GetValue(%r))\n    b = Scalar(float(fv), %r, %r).GetValue(%r)\n    print(a, b)\n    assert abs(a - b) <= 1e-12 * max(abs(b), abs(%r))\n"
                            % (n, num, den, c, u, v, u, c, v, zero)
                        )
                        want = Scalar(x, u, c).GetValue(v)
                        r = _run(lambda: float(FractionScalar(c, fv, u).GetValue(v)))
                        scale = max(abs(want), abs(zero), abs(db.Convert(qt, u, v, float(n))))
                        if r[0] != "ok":
                            # the defect model can also make the conversion raise? (it cannot: finite floats)
                            part.violation(sig + ":raised", {"error": r[1]}, sn)
                            continue
                        got = r[1]
                        ok = abs(got - want) <= 1e-12 * scale
                        model = None
                        if not ok and u != v:
                            # D11b: number and numerator converted separately, numerator then quantised
                            cn = db.Convert(qt, u, v, float(n))
                            cnum = db.Convert(qt, u, v, float(Fraction(num, den).numerator)) - zero
                            try:
                                buggy = cn + float(quantised(cnum) / Fraction(num, den).denominator)
                                if got == buggy or abs(got - buggy) <= 1e-15 * max(abs(buggy), abs(cn)):
                                    model = "fraction-numerator-quantised"
                            except (ValueError, OverflowError, ZeroDivisionError):
                                pass
                        if not ok:
                            part.violation(sig + ":differs from Scalar(float(value))", {"fraction_scalar": got, "scalar": want}, sn, model=model)
                            part.add("outcomes", ("differs", model))
                            continue
                        part.add("outcomes", ("agrees", u == v))
                        if u != v and num:
                            part.add("nontrivial", (u, v))
                        # the same two objects asked again while ANOTHER database is the current singleton: both
                        # belong to the database they were created in, and behave alike there too
                        if (u, v) in foreign_pairs:
                            fs_obj, sc_obj = FractionScalar(c, fv, u), Scalar(x, u, c)
                            with worlds.foreign_singleton():
                                part.count("evaluations")
                                rs = _run(lambda: sc_obj.GetValue(v))
                                rf = _run(lambda: float(fs_obj.GetValue(v)))
                            if rs[0] == "ok" and not (rf[0] == "ok" and abs(rf[1] - rs[1]) <= 1e-12 * scale):
                                part.violation(sig + ":under a foreign singleton the Scalar converts, the FractionScalar does not", {"scalar": repr(rs), "fraction_scalar": repr(rf)},
                                               sn.replace("    a = float(FractionScalar", "    import mc.worlds as w\n    with w.foreign_singleton():\n        print(float(FractionScalar(%r, fv, %r).GetValue(%r)))\n    a = float(FractionScalar" % (c, u, v)))
                        # db.Convert of the FractionValue itself
                        r2 = _run(lambda: float(db.Convert(qt, u, v, fv)))
                        if r2[0] != "ok" or abs(r2[1] - want) > 1e-12 * scale:
                            part.violation(sig + ":db.Convert(FractionValue) differs from Scalar", {"got": repr(r2), "scalar": want}, sn)
                    # order comparisons against probes that are robustly less / greater (1e-6)
                    for n, (num, den) in (values if all_values else values[:1]):
                        fv = FractionValue(n, (num, den))
                        x = float(fv)
                        a = FractionScalar(c, fv, u)
                        conv = db.Convert(qt, u, v, x)
                        sc = max(abs(conv), abs(zero))
                        for kind, y in (("less", conv - 1e-6 * sc), ("greater", conv + 1e-6 * sc)):
                            b = FractionScalar(c, FractionValue(y), v)
                            sa, sb = Scalar(x, u, c), Scalar(y, v, c)
                            for name, op in CMP[:4]:
                                part.count("evaluations")
                                r = _run(lambda: (op(a, b), op(b, a)))
                                want = (op(sa, sb), op(sb, sa))
                                if r != ("ok", want):
                                    # is it the recorded quantisation? re-evaluate with the model's converted amounts
                                    model = None
                                    if r[0] == "ok" and u != v:
                                        try:
                                            cnum = db.Convert(qt, u, v, float(fv.GetFraction().numerator)) - zero
                                            a_in_v = db.Convert(qt, u, v, float(n)) + float(quantised(cnum) / fv.GetFraction().denominator)
                                            y_in_u = db.Convert(qt, v, u, y)  # b has no fraction part: exact path
                                            # mirror of the implementation's structure: p < q is p.value < q.GetValue(p.unit),
                                            # the other three operators are derived from it
                                            a_lt_b, b_lt_a = x < y_in_u, y < a_in_v
                                            pred = {"<": (a_lt_b, b_lt_a), "<=": (not b_lt_a, not a_lt_b), ">": (b_lt_a, a_lt_b), ">=": (not a_lt_b, not b_lt_a)}[name]
                                            if pred == r[1]:
                                                model = "fraction-numerator-quantised"
                                        except (ValueError, OverflowError, ZeroDivisionError):
                                            pass
                                    part.violation("C18:FractionScalar order:%s %s vs %s %s:%s" % (fv, u, kind, v, name), {"got": repr(r), "scalar": want}, None, model=model)
    return part


def _validation_like_scalar(_):
    """'validates exactly like a Scalar holding float(value)' - in categories WITH limits (none is shipped: small
    databases built like C12's), for fresh FractionScalars and for ONE FractionScalar whose held FractionValue the
    caller edits in place between the questions."""
    from . import c12

    part = Part()
    for qt, du, units in (("length", "m", ["m", "cm", "km"]), ("temperature", "degC", ["degC", "K"])):
        for kind in c12.LIMIT_KINDS:
            db, lo, hi, lx, hx, lo_du, hi_du = c12.make_world(qt, du, kind)
            with worlds.installed(db):
                for u in units:
                    mid = db.Convert(qt, du, u, db.Convert(qt, qt == "length" and "m" or "K", du, (c12.TYPES[qt][1] + c12.TYPES[qt][2]) / 2))
                    span = abs(db.Convert(qt, du, u, hi_du) - db.Convert(qt, du, u, lo_du))
                    numbers = [mid, mid - span, mid + span, mid, mid + 2 * span, mid]
                    shared = FractionValue(number=numbers[0])
                    one = FractionScalar("lim", shared, u)
                    for x in numbers:
                        for frac in ((0, 1), (1, 2)):
                            part.count("evaluations")
                            shared.SetNumber(x)
                            shared.SetFraction(frac)
                            fresh = FractionScalar("lim", FractionValue(x, frac), u)
                            want = Scalar("lim", float(shared), u).IsValid()
                            for label, obj in (("fresh FractionScalar", fresh), ("one FractionScalar after its value was edited in place", one)):
                                try:
                                    got = obj.IsValid()
                                except Exception as e:
                                    got = repr(e)
                                if got != want:
                                    part.violation("C18:validation:%s default %s:%s:%s holding %r %r in %s" % (qt, du, kind[0], label, x, frac, u), {"FractionScalar.IsValid": got, "Scalar(float(value)).IsValid": want})
    return part


def _task(task):
    if task[0] == "validation":
        return _validation_like_scalar(task[1])
    if task[0] == "fraction":
        p = Part()
        _fraction_part(p)
        p.sample({"fraction_values": [_fr_expr(t) for t in FR], "numbers": NUMS})
        return p
    if task[0] == "fv":
        return _fraction_value_part(task[1])
    if task[0] == "ff":
        return _from_float_task(task[1])
    return _fs_task(task[1])


def run(ctx):
    tasks = [("fraction", None)]
    dens = list(range(1, 65))
    tasks += [("fv", (dens[i::16], 1 if ctx.thorough else 3)) for i in range(16)]
    nmax, kmax = (100000, 6) if ctx.thorough else (10000, 4)
    step = nmax // 32 + 1
    tasks += [("ff", ("decimal", lo, min(lo + step, nmax + 1), kmax)) for lo in range(0, nmax + 1, step)]
    tasks += [("ff", ("pq", 2, 129 if ctx.thorough else 65, 0))]
    tasks += [("ff", ("contexts", 0, 0, 0)), ("validation", None)]
    with worlds.world("posc") as db:
        qts = sorted(db.GetQuantityTypes(), key=lambda q: -len(db.GetUnits(q)))
    tasks += [("fs", (qts[i::48], ctx.thorough)) for i in range(48)]
    run_sharded(ctx, _task, tasks)
    c = ctx.part.counters
    ctx.level = "exploration"
    ctx.rule = (
        "complete products: (A) 20x20 Fraction pairs (incl. short-decimal float numerators) x 5 arithmetic + 6 comparison operators, 7 numbers (+-inf for the comparisons) on both sides, exponents -2..3, unary operations and setters, judged by fractions.Fraction; "
        "(B) 11 numbers x 7 numerators x denominators 1..64 FractionValues: float, copy, str->CreateFromString (2 modes), 4 order operators over all ordered pairs of them (quick: of every third); "
        "(C) CreateFromFloat on every +-n/10^k (n <= %s) and every +-(i + p/q), q <= %s terminating, <= 8 significant digits; "
        "(D) every ordered unit pair of every quantity type x %d fraction values: FractionScalar.GetValue and db.Convert(FractionValue) vs Scalar(float(value)), 4 order operators x 2 probes x both operand orders; "
        "non-trivial = Fraction pairs + FractionValues with a fraction part + CreateFromFloat results with a fraction part + converting unit pairs" % (("10^5, k <= 6", "128", 5) if ctx.thorough else ("10^4, k <= 4", "64", 3))
    )
    ctx.coverage_extra = {"unit_pairs": c.get("unit_pairs", 0), "ties_differing_by_rounding_skipped": c.get("ties_differing_by_rounding_skipped", 0)}
    ctx.assumptions = [
        "format/parse is judged for numbers %g prints positionally with <= 6 significant digits (the formatter is %g, the parser has no exponent syntax)",
        "FractionValue order is judged for pairs whose exact amounts differ by > 1e-9 relative or whose floats are identical",
        "recorded class D11b is attributed only when the defect model (numerator quantised as Fraction.__init__ does) reproduces the observed float",
        "FractionScalar validity is covered by C12 (FractionScalar probes in every limit configuration)",
    ]
