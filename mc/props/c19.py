"""
C19  Equivalent construction forms build equal objects.

Input space (complete): every unit u of the table with its resolved default category c, and - as the
explicit-category forms - every category of u's quantity type (quick: every category for the
type's first, last and default-category units and the unit's own default category for all units;
thorough: every (unit, category) pair of every type); values {1.5, -2.0, 0.0}; containers
list / tuple / ndarray.  For every category: the object built from the category alone vs the one
built from its default value and default unit, for Scalar, FractionScalar, Array, FixedArray.

Oracle: pairwise == inside each family of forms (and != never disagrees with ==); the resolved default
category exists and has u's quantity type; eval(repr(scalar)) == scalar.
"""
import numpy as np

from barril.basic.fraction import FractionValue
from barril.units import Array, FixedArray, FractionScalar, ObtainQuantity, Quantity, Scalar

from .. import worlds
from ..par import run_sharded
from ..runner import Part

VALUES = [1.5, -2.0, 0.0]


def scalar_forms(v, u, c, default):
    F = [
        ("Scalar(v, u, c)", lambda: Scalar(v, u, c)),
        ("Scalar(c, v, u)", lambda: Scalar(c, v, u)),
        ("Scalar(ObtainQuantity(u, c), v)", lambda: Scalar(ObtainQuantity(u, c), v)),
        ("Scalar.CreateWithQuantity(ObtainQuantity(u, c), v)", lambda: Scalar.CreateWithQuantity(ObtainQuantity(u, c), v)),
        ("Scalar(Quantity(c, u), v)", lambda: Scalar(Quantity(c, u), v)),
        ("Scalar(value=v, unit=u, category=c)", lambda: Scalar(category=c, value=v, unit=u)),
        ("Scalar(v, u, c).CreateCopy()", lambda: Scalar(v, u, c).CreateCopy()),
        ("Scalar(0, u, c).CreateCopy(value=v)", lambda: Scalar(7.0, u, c).CreateCopy(value=v)),
        ("Scalar(v, u, c).CreateCopy(unit=u, category=c)", lambda: Scalar(v, u, c).CreateCopy(unit=u, category=c)),
    ]
    if default:
        F += [
            ("Scalar(v, u)", lambda: Scalar(v, u)),
            ("Scalar((v, u))", lambda: Scalar((v, u))),
            ("Scalar(ObtainQuantity(u), v)", lambda: Scalar(ObtainQuantity(u), v)),
            ("Scalar(ObtainQuantity([(u, 1)], [c]), v)", lambda: Scalar(ObtainQuantity([(u, 1)], [c]), v)),
        ]
    return F


def _cont(kind, vals):
    return list(vals) if kind == "list" else tuple(vals) if kind == "tuple" else np.array(vals, dtype=float)


def array_forms(kind, vals, u, c, default):
    mk = lambda: _cont(kind, vals)  # noqa: E731  (a fresh container per form)
    F = [
        ("Array(values, u, c)", lambda: Array(mk(), u, c)),
        ("Array(c, values, u)", lambda: Array(c, mk(), u)),
        ("Array(ObtainQuantity(u, c), values)", lambda: Array(ObtainQuantity(u, c), mk())),
        ("Array.CreateWithQuantity(q, values)", lambda: Array.CreateWithQuantity(ObtainQuantity(u, c), mk())),
        ("Array.CreateWithQuantity(q, value=values)", lambda: Array.CreateWithQuantity(ObtainQuantity(u, c), value=mk())),
        ("Array(values, u, c).CreateCopy()", lambda: Array(mk(), u, c).CreateCopy()),
        ("Array.FromScalars(scalars)", lambda: Array.FromScalars([Scalar(x, u, c) for x in vals]) if len(vals) else Array(mk(), u, c)),
    ]
    if default:
        F.append(("Array(values, u)", lambda: Array(mk(), u)))
    return F


def fixed_forms(kind, vals, u, c, default):
    n = len(vals)
    mk = lambda: _cont(kind, vals)  # noqa: E731
    F = [
        ("FixedArray(n, values, u, c)", lambda: FixedArray(n, mk(), u, c)),
        ("FixedArray(n, c, values, u)", lambda: FixedArray(n, c, mk(), u)),
        ("FixedArray(n, ObtainQuantity(u, c), values)", lambda: FixedArray(n, ObtainQuantity(u, c), mk())),
        ("FixedArray.CreateWithQuantity(q, values)", lambda: FixedArray.CreateWithQuantity(ObtainQuantity(u, c), mk())),
        ("FixedArray.CreateWithQuantity(q, values, dimension=n)", lambda: FixedArray.CreateWithQuantity(ObtainQuantity(u, c), mk(), dimension=n)),
        ("FixedArray(...).CreateCopy()", lambda: FixedArray(n, mk(), u, c).CreateCopy()),
    ]
    if default:
        F.append(("FixedArray(n, values, u)", lambda: FixedArray(n, mk(), u)))
    return F


def fraction_forms(v, u, c, default):
    fv = lambda: FractionValue(int(v), (1, 2)) if v == int(v) else FractionValue(v)  # noqa: E731
    F = [
        ("FractionScalar(value, u, c)", lambda: FractionScalar(fv(), u, c)),
        ("FractionScalar(c, value, u)", lambda: FractionScalar(c, fv(), u)),
        ("FractionScalar(ObtainQuantity(u, c), value)", lambda: FractionScalar(ObtainQuantity(u, c), fv())),
        ("FractionScalar.CreateWithQuantity(q, value)", lambda: FractionScalar.CreateWithQuantity(ObtainQuantity(u, c), fv())),
        ("FractionScalar(...).CreateCopy()", lambda: FractionScalar(fv(), u, c).CreateCopy()),
    ]
    if default:
        F.append(("FractionScalar(value, u)", lambda: FractionScalar(fv(), u)))
    return F


def _family(part, sig, forms, check=None):
    """build every form; all must be pairwise == (both directions, != consistent)"""
    objs = []
    for name, f in forms:
        part.count("evaluations")
        try:
            objs.append((name, f()))
        except Exception as e:
            part.violation(sig + ":" + name + ":raised", {"error": repr(e)})
    for i, (na, a) in enumerate(objs):
        for nb, b in objs[i + 1:]:
            part.count("comparisons")
            try:
                ok = (a == b) and (b == a) and not (a != b) and not (b != a)
            except Exception as e:
                part.violation(sig + ":" + na + " vs " + nb + ":comparison raised", {"error": repr(e)})
                continue
            if not ok:
                part.violation(sig + ":" + na + " vs " + nb + ":not equal", {"a": repr(a), "b": repr(b), "a_category": a.GetCategory(), "b_category": b.GetCategory()})
    if check and objs:
        check(objs[0][1])
    return len(objs)


def _snip(u, c):
    return "from mc import worlds\nfrom barril.units import *\nwith worlds.world('posc') as db:\n    print(db.GetDefaultCategory(%r), Scalar(1.5, %r), Scalar(1.5, %r, %r))\n    assert Scalar(1.5, %r) == Scalar(1.5, %r, %r)\n" % (u, u, u, c, u, u, c)


def _unit_task(task):
    qts, thorough = task
    part = Part()
    with worlds.world("posc") as db:
        cats_of = {}
        for cname in db.IterCategories():
            cats_of.setdefault(db.GetCategoryQuantityType(cname), []).append(cname)
        for qt in qts:
            units = db.GetUnits(qt)
            for ui, u in enumerate(units):
                part.count("units")
                dc = db.GetDefaultCategory(u)
                sig0 = "C19:%s" % u
                if dc is None:
                    part.count("units_without_default_category")
                    if qt in cats_of:
                        part.violation(sig0 + ":no default category although the quantity type has categories", {"quantity_type": qt})
                    cats = []
                else:
                    part.count("evaluations")
                    if not db.IsValidCategory(dc) or db.GetCategoryQuantityType(dc) != qt:
                        part.violation(sig0 + ":default category %r is missing or of another quantity type" % dc, {"quantity_type": qt}, _snip(u, dc))
                        continue
                    cats = [dc]
                    if thorough or ui in (0, len(units) - 1):
                        cats += [c for c in cats_of.get(qt, []) if c != dc]
                for c in cats:
                    default = c == dc
                    if not default:
                        part.add("nontrivial", (u, c))
                    for v in VALUES:
                        sig = "%s:%s:%r" % (sig0, c, v)

                        def chk(s, c=c, u=u, v=v):
                            if s.GetCategory() != c or s.GetUnit() != u or s.GetQuantityType() != qt or s.GetValue() != v:
                                part.violation(sig + ":object does not carry what was asked", {"object": repr(s), "category": s.GetCategory()})

                        _family(part, sig + ":Scalar", scalar_forms(v, u, c, default), chk)
                        if v == VALUES[0] or thorough:
                            _family(part, sig + ":FractionScalar", fraction_forms(v, u, c, default))
                    # eval(repr(scalar))
                    for v in VALUES:
                        part.count("evaluations")
                        s = Scalar(v, u, c)
                        try:
                            back = eval(repr(s), {"Scalar": Scalar})
                        except Exception as e:
                            part.violation("%s:%s:eval(repr) raised" % (sig0, c), {"repr": repr(s), "error": repr(e)})
                            continue
                        if not (back == s) or back.GetCategory() != c:
                            part.violation("%s:%s:eval(repr(scalar)) != scalar" % (sig0, c), {"repr": repr(s), "back": repr(back)})
                    if default and len(cats_of.get(qt, [])) > 1:
                        # depth-2 histories: the same unit requested with EVERY other category of its type
                        # first (cold cache), then the forms that resolve the default category
                        worlds.clear_caches(db)
                        for c2 in cats_of[qt]:
                            if c2 != dc:
                                ObtainQuantity(u, c2)
                                Scalar(1.5, u, c2)
                                Array([1.5], u, c2)
                        part.count("warm_families")

                        def chk_warm(s, c=c, u=u):
                            if s.GetCategory() != c or s.GetUnit() != u:
                                part.violation("%s:%s:after requests with the other categories:object does not carry the default category" % (sig0, c), {"object": repr(s), "category": s.GetCategory()})

                        _family(part, "%s:%s:after requests with the other categories:Scalar" % (sig0, c), scalar_forms(1.5, u, c, True)[::-1], chk_warm)
                        _family(part, "%s:%s:after requests with the other categories:Array" % (sig0, c), array_forms("list", [1.5, -2.0], u, c, True)[::-1])
                        _family(part, "%s:%s:after requests with the other categories:FractionScalar" % (sig0, c), fraction_forms(1.5, u, c, True)[::-1])
                        worlds.clear_caches(db)
                    for kind in ("list", "tuple", "ndarray"):
                        for vals in ([], [1.5], [1.5, -2.0], [0.0, 1.5, -2.0]) if (default or thorough) else ([1.5, -2.0],):
                            _family(part, "%s:%s:Array[%s,%d]" % (sig0, c, kind, len(vals)), array_forms(kind, vals, u, c, default))
                            if len(vals) >= 2:
                                _family(part, "%s:%s:FixedArray[%s,%d]" % (sig0, c, kind, len(vals)), fixed_forms(kind, vals, u, c, default))
                    part.add("outcomes", (default, qt == c))
    return part


def _category_task(cats):
    part = Part()
    with worlds.world("posc") as db:
        for c in cats:
            info = db.GetCategoryInfo(c)
            du, dv = info.default_unit, info.default_value
            part.count("categories")
            sig = "C19:category %s" % c
            _family(part, sig + ":Scalar", [("Scalar(c)", lambda: Scalar(c)), ("Scalar(c, default_value, default_unit)", lambda: Scalar(c, dv, du)), ("Scalar(default_value, default_unit, c)", lambda: Scalar(dv, du, c)),
                                           ("Scalar(ObtainQuantity(default_unit, c))", lambda: Scalar(ObtainQuantity(du, c))), ("Scalar(c, unit=default_unit)", lambda: Scalar(c, unit=du))])
            _family(part, sig + ":FractionScalar", [("FractionScalar(c)", lambda: FractionScalar(c)), ("FractionScalar(c, default_value, default_unit)", lambda: FractionScalar(c, dv, du)),
                                                   ("FractionScalar(c, unit=default_unit)", lambda: FractionScalar(c, unit=du))])
            _family(part, sig + ":Array", [("Array(c)", lambda: Array(c)), ("Array(c, [], default_unit)", lambda: Array(c, [], du)), ("Array(ObtainQuantity(default_unit, c))", lambda: Array(ObtainQuantity(du, c)))])
            for n in (2, 3):
                _family(part, sig + ":FixedArray", [("FixedArray(n, c)", lambda: FixedArray(n, c)), ("FixedArray(n, c, [0.0]*n, default_unit)", lambda: FixedArray(n, c, [0.0] * n, du)),
                                                   ("FixedArray(n, ObtainQuantity(default_unit, c))", lambda: FixedArray(n, ObtainQuantity(du, c)))])
            # the category-only Scalar in every other unit is the default amount re-expressed
            for u in db.GetUnits(info.quantity_type):
                part.count("evaluations")
                try:
                    s = Scalar(c, unit=u)
                    want = db.Convert(info.quantity_type, du, u, dv)
                except Exception as e:
                    part.violation(sig + ":Scalar(c, unit=%r) raised" % u, {"error": repr(e)})
                    continue
                if s.GetUnit() != u or s.GetCategory() != c or s.GetValue() != want:
                    part.violation(sig + ":Scalar(c, unit=%r) is not the default amount" % u, {"object": repr(s), "want": want})
                # ... and the category-only forms still build the default afterwards (order of requests)
                part.count("evaluations")
                try:
                    s0, f0 = Scalar(c), FractionScalar(c)
                    ok = s0 == Scalar(c, dv, du) and s0.GetUnit() == du and s0.GetValue() == dv and float(f0.GetValue()) == dv and f0.GetUnit() == du and Scalar(c, unit=du).GetValue() == dv
                except Exception as e:
                    part.violation(sig + ":category-only form raised after Scalar(c, unit=%r)" % u, {"error": repr(e)})
                    continue
                if not ok:
                    part.violation(
                        sig + ":category-only form differs after Scalar(c, unit=%r)" % u,
                        {"Scalar(c)": repr(s0), "FractionScalar(c)": repr(f0), "default": [dv, du]},
                        "from mc import worlds\nfrom barril.units import *\nwith worlds.world('posc') as db:\n    Scalar(%r, unit=%r)\n    s = Scalar(%r)\n    print(s)\n    assert (s.GetValue(), s.GetUnit()) == (%r, %r)\n" % (c, u, c, dv, du),
                    )
            part.add("nontrivial", c)
    return part


def _task(task):
    if task[0] == "units":
        return _unit_task(task[1])
    return _category_task(task[1])


def run(ctx):
    with worlds.world("posc") as db:
        qts = sorted(db.GetQuantityTypes(), key=lambda q: -len(db.GetUnits(q)) * (1 + sum(1 for c in db.IterCategories() if db.GetCategoryQuantityType(c) == q)))
        cats = sorted(db.IterCategories())
    n = 64 if ctx.thorough else 32
    tasks = [("units", (qts[i::n], ctx.thorough)) for i in range(n)]
    tasks += [("cats", cats[i::8]) for i in range(8)]
    run_sharded(ctx, _task, tasks)
    c = ctx.part.counters
    ctx.level = "exploration"
    ctx.rule = (
        "complete enumeration: every unit of the table (%d) x its default category (%s) x 3 values x 13 Scalar forms, 6 FractionScalar forms, 8 Array and 7 FixedArray forms over list/tuple/ndarray of length 0..3, eval(repr); "
        "for every unit whose type has several categories the default-category forms again (reverse order) after requests of that unit with every other category on a cold cache; every category (%d) x category-only vs default-value/default-unit forms for the four classes and Scalar(c, unit=u) for every unit; all forms of a family compared pairwise with == and != in both directions. "
        "non-trivial = distinct (unit, non-default category) pairs + categories" % (c.get("units", 0), "and every other category of its type" if ctx.thorough else "plus every other category of the type for the first and last unit of each type", c.get("categories", 0))
    )
    ctx.coverage_extra = {k: c.get(k, 0) for k in ("units", "categories", "comparisons", "units_without_default_category", "warm_families")}
    ctx.part.sample({"unit": "m", "category": "length", "scalar_forms": [n for n, _f in scalar_forms(1.5, "m", "length", True)]})
    ctx.part.sample({"array_forms": [n for n, _f in array_forms("list", [1.5], "m", "length", True)], "fixedarray_forms": [n for n, _f in fixed_forms("list", [1.5, 2.0], "m", "length", True)]})
    ctx.assumptions = ["values {1.5, -2.0, 0.0}; one-dimensional containers of length 0..3", "Quantity(c, u) called directly is included as a form (== with the interned quantity is required by C07)"]
