"""
C19  Equivalent construction forms build equal objects.

Input space (complete): every unit u of the table with its resolved default category c, and - as the
explicit-category forms - every category of u's quantity type (quick: every category for the
type's first, last and default-category units and the unit's own default category for all units;
thorough: every (unit, category) pair of every type); values {1.5, -2.0, 0.0}; containers
list / tuple / ndarray.  For every category: the object built from the category alone vs the one
built from its default value and default unit, for Scalar, FractionScalar, Array, FixedArray.

Oracle: pairwise == inside each family of forms (and != never disagrees with ==); the resolved default
category exists and has u's quantity type; eval(repr(scalar)) == scalar.
"""
import numpy as np

from barril.basic.fraction import FractionValue
from barril.units import Array, FixedArray, FractionScalar, ObtainQuantity, Quantity, Scalar

from .. import worlds
from ..par import run_sharded
from ..runner import Part

VALUES = [1.5, -2.0, 0.0]


def scalar_forms(v, u, c, default):
    F = [
        ("Scalar(v, u, c)", lambda: Scalar(v, u, c)),
        ("Scalar(c, v, u)", lambda: Scalar(c, v, u)),
        ("Scalar(ObtainQuantity(u, c), v)", lambda: Scalar(ObtainQuantity(u, c), v)),
        ("Scalar.CreateWithQuantity(ObtainQuantity(u, c), v)", lambda: Scalar.CreateWithQuantity(ObtainQuantity(u, c), v)),
        ("Scalar(Quantity(c, u), v)", lambda: Scalar(Quantity(c, u), v)),
        ("Scalar(value=v, unit=u, category=c)", lambda: Scalar(category=c, value=v, unit=u)),
        ("Scalar(v, u, c).CreateCopy()", lambda: Scalar(v, u, c).CreateCopy()),
        ("Scalar(0, u, c).CreateCopy(value=v)", lambda: Scalar(7.0, u, c).CreateCopy(value=v)),
        ("Scalar(v, u, c).CreateCopy(unit=u, category=c)", lambda: Scalar(v, u, c).CreateCopy(unit=u, category=c)),
    ]
    if default:
        F += [
            ("Scalar(v, u)", lambda: Scalar(v, u)),
            ("Scalar((v, u))", lambda: Scalar((v, u))),
            ("Scalar(ObtainQuantity(u), v)", lambda: Scalar(ObtainQuantity(u), v)),
            ("Scalar(ObtainQuantity([(u, 1)], [c]), v)", lambda: Scalar(ObtainQuantity([(u, 1)], [c]), v)),
        ]
    return F


def _cont(kind, vals):
    return list(vals) if kind == "list" else tuple(vals) if kind == "tuple" else np.array(vals, dtype=float)


def array_forms(kind, vals, u, c, default):
    mk = lambda: _cont(kind, vals)  # noqa: E731  (a fresh container per form)
    F = [
        ("Array(values, u, c)", lambda: Array(mk(), u, c)),
        ("Array(c, values, u)", lambda: Array(c, mk(), u)),
        ("Array(ObtainQuantity(u, c), values)", lambda: Array(ObtainQuantity(u, c), mk())),
        ("Array.CreateWithQuantity(q, values)", lambda: Array.CreateWithQuantity(ObtainQuantity(u, c), mk())),
        ("Array.CreateWithQuantity(q, value=values)", lambda: Array.CreateWithQuantity(ObtainQuantity(u, c), value=mk())),
        ("Array(values, u, c).CreateCopy()", lambda: Array(mk(), u, c).CreateCopy()),
        ("Array.FromScalars(scalars)", lambda: Array.FromScalars([Scalar(x, u, c) for x in vals]) if len(vals) else Array(mk(), u, c)),
    ]
    if default:
        F.append(("Array(values, u)", lambda: Array(mk(), u)))
    return F


def fixed_forms(kind, vals, u, c, default):
    n = len(vals)
    mk = lambda: _cont(kind, vals)  # noqa: E731
    F = [
        ("FixedArray(n, values, u, c)", lambda: FixedArray(n, mk(), u, c)),
        ("FixedArray(n, c, values, u)", lambda: FixedArray(n, c, mk(), u)),
        ("FixedArray(n, ObtainQuantity(u, c), values)", lambda: FixedArray(n, ObtainQuantity(u, c), mk())),
        ("FixedArray.CreateWithQuantity(q, values)", lambda: FixedArray.CreateWithQuantity(ObtainQuantity(u, c), mk())),
        ("FixedArray.CreateWithQuantity(q, values, dimension=n)", lambda: FixedArray.CreateWithQuantity(ObtainQuantity(u, c), mk(), dimension=n)),
        ("FixedArray(...).CreateCopy()", lambda: FixedArray(n, mk(), u, c).CreateCopy()),
    ]
    if default:
        F.append(("FixedArray(n, values, u)", lambda: FixedArray(n, mk(), u)))
    return F


def fraction_forms(v, u, c, default):
    fv = lambda: FractionValue(int(v), (1, 2)) if v == int(v) else FractionValue(v)  # noqa: E731
    F = [
        ("FractionScalar(value, u, c)", lambda: FractionScalar(fv(), u, c)),
        ("FractionScalar(c, value, u)", lambda: FractionScalar(c, fv(), u)),
        ("FractionScalar(ObtainQuantity(u, c), value)", lambda: FractionScalar(ObtainQuantity(u, c), fv())),
        ("FractionScalar.CreateWithQuantity(q, value)", lambda: FractionScalar.CreateWithQuantity(ObtainQuantity(u, c), fv())),
        ("FractionScalar(...).CreateCopy()", lambda: FractionScalar(fv(), u, c).CreateCopy()),
    ]
    if default:
        F.append(("FractionScalar(value, u)", lambda: FractionScalar(fv(), u)))
    return F


def _scribble(o):
    """The caller edits, in place, the values of an object it has built (its own object: a legitimate edit)."""
    if not isinstance(o, Array):
        return False
    try:
        v = o.values
    except Exception:
        return False
    if isinstance(v, list):
        if isinstance(o, FixedArray):
            if not v:
                return False
            v[0] = 123.0
        else:
            v.append(123.0)
        return True
    if isinstance(v, np.ndarray) and v.size and v.flags.writeable:
        v.fill(123.0)
        return True
    return False


def _family(part, sig, forms, check=None):
    """build every form; all must be pairwise == (both directions, != consistent); then the caller edits the
    values of the objects it got and builds the family once more: what is built must not depend on that"""
    n = _family1(part, sig, forms, check, True)
    if n < 0:
        _family1(part, sig + ":built again after the caller edited the values of the first objects", forms, None, False)
    return abs(n)


def _family1(part, sig, forms, check, edit):
    objs = []
    for name, f in forms:
        part.count("evaluations")
        try:
            objs.append((name, f()))
        except Exception as e:
            part.violation(sig + ":" + name + ":raised", {"error": repr(e)})
    for i, (na, a) in enumerate(objs):
        for nb, b in objs[i + 1:]:
            part.count("comparisons")
            try:
                ok = (a == b) and (b == a) and not (a != b) and not (b != a)
            except Exception as e:
                part.violation(sig + ":" + na + " vs " + nb + ":comparison raised", {"error": repr(e)})
                continue
            if not ok:
                part.violation(sig + ":" + na + " vs " + nb + ":not equal", {"a": repr(a), "b": repr(b), "a_category": a.GetCategory(), "b_category": b.GetCategory()})
    if check and objs:
        check(objs[0][1])
    edited = False
    if edit:
        for _n, o in objs:
            edited = _scribble(o) or edited
    return -len(objs) if edited else len(objs)


def _snip(u, c):
    return "from mc import worlds\nfrom barril.units import *\nwith worlds.world('posc') as db:\n    print(db.GetDefaultCategory(%r), Scalar(1.5, %r), Scalar(1.5, %r, %r))\n    assert Scalar(1.5, %r) == Scalar(1.5, %r, %r)\n" % (u, u, u, c, u, u, c)


def _unit_task(task):
    qts, thorough = task
    part = Part()
    with worlds.world("posc") as db:
        cats_of = {}
        for cname in db.IterCategories():
            cats_of.setdefault(db.GetCategoryQuantityType(cname), []).append(cname)
        for qt in qts:
            units = db.GetUnits(qt)
            for ui, u in enumerate(units):
                part.count("units")
                dc = db.GetDefaultCategory(u)
                sig0 = "C19:%s" % u
                if dc is None:
                    part.count("units_without_default_category")
                    if qt in cats_of:
                        part.violation(sig0 + ":no default category although the quantity type has categories", {"quantity_type": qt})
                    cats = []
                else:
                    part.count("evaluations")
                    if not db.IsValidCategory(dc) or db.GetCategoryQuantityType(dc) != qt:
                        part.violation(sig0 + ":default category %r is missing or of another quantity type" % dc, {"quantity_type": qt}, _snip(u, dc))
                        continue
                    cats = [dc]
                    if thorough or ui in (0, len(units) - 1):
                        cats += [c for c in cats_of.get(qt, []) if c != dc]
                for c in cats:
                    default = c == dc
                    if not default:
                        part.add("nontrivial", (u, c))
                    for v in VALUES:
                        sig = "%s:%s:%r" % (sig0, c, v)

                        def chk(s, c=c, u=u, v=v):
                            if s.GetCategory() != c or s.GetUnit() != u or s.GetQuantityType() != qt or s.GetValue() != v:
                                part.violation(sig + ":object does not carry what was asked", {"object": repr(s), "category": s.GetCategory()})

                        _family(part, sig + ":Scalar", scalar_forms(v, u, c, default), chk)
                        if default and v == VALUES[0]:
                            # the unit requested with a label of its own (no category) in between: the forms that let
                            # the unit pick its category still build the caption-less object
                            try:
                                ObtainQuantity(u, unknown_unit_caption="as read from the file")
                            except Exception:
                                pass
                            _family(part, sig + ":Scalar after ObtainQuantity(u, unknown_unit_caption=...)", scalar_forms(v, u, c, default), chk)
                            _family(part, sig + ":Array after ObtainQuantity(u, unknown_unit_caption=...)", array_forms("list", [v, v], u, c, default))
                        if v == VALUES[0] or thorough:
                            _family(part, sig + ":FractionScalar", fraction_forms(v, u, c, default))
                    # the value may arrive as any python / numpy number: same object, and repr still evaluates back
                    if default:
                        ref = Scalar(1.5, u, c)
                        for vname, nv in (("numpy.float64", np.float64(1.5)), ("numpy.float32", np.float32(1.5)), ("int", 3), ("numpy.int64", np.int64(3)), ("bool", True), ("numpy.float64 from an array", np.array([1.5, 2.0])[0]), ("numpy 0-d array item", np.array(1.5).item())):
                            part.count("evaluations")
                            want = ref if float(nv) == 1.5 else Scalar(float(nv), u, c)
                            try:
                                forms = [Scalar(nv, u), Scalar(nv, u, c), Scalar(c, nv, u), Scalar((nv, u)), Scalar(ObtainQuantity(u, c), nv), Scalar.CreateWithQuantity(ObtainQuantity(u, c), nv)]
                                ok = all(f == want and want == f for f in forms)
                                back = [eval(repr(f), {"Scalar": Scalar}) for f in forms]
                                ok = ok and all(b == want for b in back) and all(type(f.GetValue()) is float for f in forms)
                            except Exception as e:
                                part.violation("%s:%s:value given as %s:raised" % (sig0, c, vname), {"error": repr(e)},
                                               "import numpy as np\nfrom mc import worlds\nfrom barril.units import Scalar\nwith worlds.world('posc'):\n    s = Scalar(np.float64(1.5), %r, %r)\n    print(repr(s))\n    assert eval(repr(s), {'Scalar': Scalar}) == s\n" % (u, c))
                                continue
                            if not ok:
                                part.violation("%s:%s:value given as %s:forms differ or repr does not evaluate back" % (sig0, c, vname), {"forms": [repr(f) for f in forms]})
                    # eval(repr(scalar)) - also amounts that need all 17 digits of a double, huge and tiny ones
                    for v in VALUES + [0.1 + 0.2, 1.0 / 3.0, -2.0 / 3.0e5, 1.2345678901234567e+25, 5e-324, float("inf")]:
                        part.count("evaluations")
                        s = Scalar(v, u, c)
                        try:
                            back = eval(repr(s), {"Scalar": Scalar, "inf": float("inf")})
                        except Exception as e:
                            part.violation("%s:%s:eval(repr) raised" % (sig0, c), {"repr": repr(s), "error": repr(e)})
                            continue
                        if not (back == s) or back.GetCategory() != c:
                            part.violation("%s:%s:eval(repr(scalar)) != scalar" % (sig0, c), {"repr": repr(s), "back": repr(back)})
                    if default and len(cats_of.get(qt, [])) > 1:
                        # depth-2 histories: the same unit requested with EVERY other category of its type
                        # first (cold cache), then the forms that resolve the default category
                        worlds.clear_caches(db)
                        for c2 in cats_of[qt]:
                            if c2 != dc:
                                ObtainQuantity(u, c2)
                                Scalar(1.5, u, c2)
                                Array([1.5], u, c2)
                        part.count("warm_families")

                        def chk_warm(s, c=c, u=u):
                            if s.GetCategory() != c or s.GetUnit() != u:
                                part.violation("%s:%s:after requests with the other categories:object does not carry the default category" % (sig0, c), {"object": repr(s), "category": s.GetCategory()})

                        _family(part, "%s:%s:after requests with the other categories:Scalar" % (sig0, c), scalar_forms(1.5, u, c, True)[::-1], chk_warm)
                        _family(part, "%s:%s:after requests with the other categories:Array" % (sig0, c), array_forms("list", [1.5, -2.0], u, c, True)[::-1])
                        _family(part, "%s:%s:after requests with the other categories:FractionScalar" % (sig0, c), fraction_forms(1.5, u, c, True)[::-1])
                        worlds.clear_caches(db)
                    for kind in ("list", "tuple", "ndarray"):
                        for vals in ([], [1.5], [1.5, -2.0], [0.0, 1.5, -2.0]) if (default or thorough) else ([1.5, -2.0],):
                            _family(part, "%s:%s:Array[%s,%d]" % (sig0, c, kind, len(vals)), array_forms(kind, vals, u, c, default))
                            if len(vals) >= 2:
                                _family(part, "%s:%s:FixedArray[%s,%d]" % (sig0, c, kind, len(vals)), fixed_forms(kind, vals, u, c, default))
                    part.add("outcomes", (default, qt == c))
    return part


def _category_task(cats):
    part = Part()
    with worlds.world("posc") as db:
        for c in cats:
            info = db.GetCategoryInfo(c)
            du, dv = info.default_unit, info.default_value
            part.count("categories")
            sig = "C19:category %s" % c
            _family(part, sig + ":Scalar", [("Scalar(c)", lambda: Scalar(c)), ("Scalar(c, default_value, default_unit)", lambda: Scalar(c, dv, du)), ("Scalar(default_value, default_unit, c)", lambda: Scalar(dv, du, c)),
                                           ("Scalar(ObtainQuantity(default_unit, c))", lambda: Scalar(ObtainQuantity(du, c))), ("Scalar(c, unit=default_unit)", lambda: Scalar(c, unit=du)),
                                           ("Scalar.CreateWithQuantity(ObtainQuantity(default_unit, c))", lambda: Scalar.CreateWithQuantity(ObtainQuantity(du, c)))])
            _family(part, sig + ":FractionScalar", [("FractionScalar(c)", lambda: FractionScalar(c)), ("FractionScalar(c, default_value, default_unit)", lambda: FractionScalar(c, dv, du)),
                                                   ("FractionScalar(c, unit=default_unit)", lambda: FractionScalar(c, unit=du))])
            _family(part, sig + ":Array", [("Array(c)", lambda: Array(c)), ("Array(c, [], default_unit)", lambda: Array(c, [], du)), ("Array(ObtainQuantity(default_unit, c))", lambda: Array(ObtainQuantity(du, c)))])
            for n in (2, 3):
                _family(part, sig + ":FixedArray", [("FixedArray(n, c)", lambda: FixedArray(n, c)), ("FixedArray(n, c, [0.0]*n, default_unit)", lambda: FixedArray(n, c, [0.0] * n, du)),
                                                   ("FixedArray(n, ObtainQuantity(default_unit, c))", lambda: FixedArray(n, ObtainQuantity(du, c)))])
            # the category-only Scalar in every other unit is the default amount re-expressed
            for u in db.GetUnits(info.quantity_type):
                part.count("evaluations")
                try:
                    s = Scalar(c, unit=u)
                    want = db.Convert(info.quantity_type, du, u, dv)
                except Exception as e:
                    part.violation(sig + ":Scalar(c, unit=%r) raised" % u, {"error": repr(e)})
                    continue
                if s.GetUnit() != u or s.GetCategory() != c or s.GetValue() != want:
                    part.violation(sig + ":Scalar(c, unit=%r) is not the default amount" % u, {"object": repr(s), "want": want})
                # ... and the category-only forms still build the default afterwards (order of requests)
                part.count("evaluations")
                try:
                    s0, f0 = Scalar(c), FractionScalar(c)
                    ok = s0 == Scalar(c, dv, du) and s0.GetUnit() == du and s0.GetValue() == dv and float(f0.GetValue()) == dv and f0.GetUnit() == du and Scalar(c, unit=du).GetValue() == dv
                except Exception as e:
                    part.violation(sig + ":category-only form raised after Scalar(c, unit=%r)" % u, {"error": repr(e)})
                    continue
                if not ok:
                    part.violation(
                        sig + ":category-only form differs after Scalar(c, unit=%r)" % u,
                        {"Scalar(c)": repr(s0), "FractionScalar(c)": repr(f0), "default": [dv, du]},
                        "from mc import worlds\nfrom barril.units import *\nwith worlds.world('posc') as db:\n    Scalar(%r, unit=%r)\n    s = Scalar(%r)\n    print(s)\n    assert (s.GetValue(), s.GetUnit()) == (%r, %r)\n" % (c, u, c, dv, du),
                    )
            part.add("nontrivial", c)
    return part


# -- histories with registrations -------------------------------------------------------------------


def _registration_histories(depth):
    """Every sequence of <= depth steps on a fresh small database: category-less requests, registrations of
    categories, Clear() + re-registration of the units with ANOTHER default category.  After every step the
    category-less forms agree with the explicit forms for the default category the registrations imply."""
    import itertools

    from barril.units import UnitDatabase
    from barril.units.posc import MakeBaseToCustomary, MakeCustomaryToBase

    part = Part()

    def units(db, default_category):
        db.AddUnitBase("length", "metre", "m")
        db.AddUnit("length", "centimetre", "cm", MakeBaseToCustomary(0.0, 0.01, 1.0, 0.0), MakeCustomaryToBase(0.0, 0.01, 1.0, 0.0), default_category)
        db.AddUnitBase("time", "second", "s")

    class St:
        def __init__(self):
            self.db = UnitDatabase()
            units(self.db, None)
            self.cats = {}  # category -> quantity type (the model)
            self.dc = {"m": None, "cm": None, "s": None}  # default category given at registration

    def expected(st, u):
        qt = "time" if u == "s" else "length"
        if st.dc[u]:
            return st.dc[u]
        return qt if st.cats.get(qt) == qt else None

    def ask(st):
        for u in ("m", "cm", "s"):
            try:
                Scalar(1.5, u)
                Array([1.5], u)
                st.db.GetDefaultCategory(u)
            except Exception:
                pass

    def add(st, name, qt):
        try:
            st.db.AddCategory(name, qt)
            st.cats[name] = qt
        except Exception:
            pass

    def reload(st, dcat):
        st.db.Clear()
        st.cats = {}
        units(st.db, dcat)
        st.dc["cm"] = dcat

    STEPS = [
        ("ask category-less forms", ask),
        ("AddCategory('length', 'length')", lambda st: add(st, "length", "length")),
        ("AddCategory('time', 'time')", lambda st: add(st, "time", "time")),
        ("AddCategory('well diameter', 'length')", lambda st: add(st, "well diameter", "length")),
        ("Clear(); register again, cm with default_category='well diameter'", lambda st: reload(st, "well diameter")),
        ("Clear(); register again, cm without default category", lambda st: reload(st, None)),
    ]
    for n in range(1, depth + 1):
        for hist in itertools.product(range(len(STEPS)), repeat=n):
            st = St()
            with worlds.installed(st.db):
                for i in hist:
                    STEPS[i][1](st)
                part.count("histories")
                for u in ("m", "cm", "s"):
                    part.count("evaluations")
                    e = expected(st, u)
                    sig = "C19:history: %s : then unit %r" % (" ; ".join(STEPS[i][0] for i in hist), u)
                    if e is not None and e not in st.cats:
                        # the unit names a default category that is not registered (yet): no form can be built
                        e = None if st.cats.get("time" if u == "s" else "length") != ("time" if u == "s" else "length") else ("time" if u == "s" else "length")
                        if st.dc[u]:
                            continue  # dangling default category: outside the property
                    try:
                        s0 = Scalar(1.5, u)
                        got = s0.GetCategory()
                    except Exception as ex:
                        got = None
                    if got != e:
                        part.violation(sig + ": Scalar(v, u) resolves category %r, the registrations imply %r" % (got, e), {})
                        continue
                    if e is not None:
                        fam = [Scalar(1.5, u), Scalar((1.5, u)), Scalar(1.5, u, e), Scalar(e, 1.5, u), Scalar(ObtainQuantity(u, e), 1.5), Scalar(ObtainQuantity(u), 1.5)]
                        arr = [Array([1.5], u), Array([1.5], u, e), Array(ObtainQuantity(u, e), [1.5])]
                        if not all(a == fam[2] for a in fam) or not all(a == arr[1] for a in arr) or st.db.GetDefaultCategory(u) != e:
                            part.violation(sig + ": construction forms differ", {"scalars": [repr(a) for a in fam], "arrays": [a.GetCategory() for a in arr]})
                        part.add("nontrivial", ("reg-history", hist, u))
                    part.add("outcomes", ("reg-history", e is None))
    return part


def _task(task):
    if task[0] == "reg":
        return _registration_histories(task[1])
    if task[0] == "units":
        return _unit_task(task[1])
    return _category_task(task[1])


def run(ctx):
    with worlds.world("posc") as db:
        qts = sorted(db.GetQuantityTypes(), key=lambda q: -len(db.GetUnits(q)) * (1 + sum(1 for c in db.IterCategories() if db.GetCategoryQuantityType(c) == q)))
        cats = sorted(db.IterCategories())
    n = 64 if ctx.thorough else 32
    tasks = [("units", (qts[i::n], ctx.thorough)) for i in range(n)]
    tasks += [("cats", cats[i::8]) for i in range(8)]
    tasks += [("reg", 5 if ctx.thorough else 4)]
    run_sharded(ctx, _task, tasks)
    c = ctx.part.counters
    ctx.level = "exploration"
    ctx.rule = (
        "complete enumeration: every unit of the table (%d) x its default category (%s) x 3 values x 13 Scalar forms, 6 FractionScalar forms, 8 Array and 7 FixedArray forms over list/tuple/ndarray of length 0..3, eval(repr); "
        "for every unit whose type has several categories the default-category forms again (reverse order) after requests of that unit with every other category on a cold cache; every category (%d) x category-only vs default-value/default-unit forms for the four classes and Scalar(c, unit=u) for every unit; all forms of a family compared pairwise with == and != in both directions. "
        "non-trivial = distinct (unit, non-default category) pairs + categories" % (c.get("units", 0), "and every other category of its type" if ctx.thorough else "plus every other category of the type for the first and last unit of each type", c.get("categories", 0))
    )
    ctx.coverage_extra = {k: c.get(k, 0) for k in ("units", "categories", "comparisons", "units_without_default_category", "warm_families")}
    ctx.part.sample({"unit": "m", "category": "length", "scalar_forms": [n for n, _f in scalar_forms(1.5, "m", "length", True)]})
    ctx.part.sample({"array_forms": [n for n, _f in array_forms("list", [1.5], "m", "length", True)], "fixedarray_forms": [n for n, _f in fixed_forms("list", [1.5, 2.0], "m", "length", True)]})
    ctx.assumptions = ["values {1.5, -2.0, 0.0}; one-dimensional containers of length 0..3", "Quantity(c, u) called directly is included as a form (== with the interned quantity is required by C07)"]
