"""Deterministic fork-pool map: tasks are independent shards, results are merged in task order."""
import multiprocessing as mp
import os

from .runner import Part

_FUNC = None


def _call(i_task):
    i, task = i_task
    return i, _FUNC(task)


def pmap(func, tasks, procs):
    """Run func(task) -> Part for every task (fork pool); returns the list of results in order."""
    global _FUNC
    tasks = list(tasks)
    if procs <= 1 or len(tasks) <= 1:
        return [func(t) for t in tasks]
    _FUNC = func
    ctx = mp.get_context("fork")
    with ctx.Pool(min(procs, len(tasks))) as pool:
        out = [None] * len(tasks)
        for i, res in pool.imap_unordered(_call, list(enumerate(tasks)), chunksize=1):
            out[i] = res
    return out


def run_sharded(ctx, func, tasks):
    """Merge the Parts of all shards into ctx.part (order independent: counters and sets)."""
    tasks = list(tasks)
    order = ctx.rotate(range(len(tasks)))  # the seed only changes the dispatch order
    results = pmap(func, [tasks[i] for i in order], ctx.procs)
    for _i, res in sorted(zip(order, results), key=lambda t: t[0]):
        ctx.part.merge(res)


def chunks(seq, n):
    seq = list(seq)
    k = max(1, (len(seq) + n - 1) // n)
    return [seq[i : i + k] for i in range(0, len(seq), k)]
