"""
The unit databases ("worlds") the checks run in, and the reset of process-wide state.

A world is installed with UnitDatabase.PushSingleton and removed with PopSingleton.  The posc
worlds are built once per process (forked workers inherit them) and reset between histories by
clearing the two caches; mini worlds are rebuilt for every history (callables, no eval).
"""
import contextlib
import locale

from barril.units import UnitDatabase
from barril.units._quantity import Quantity

try:
    locale.setlocale(locale.LC_ALL, "C")
except locale.Error:
    pass

_CACHE = {}


def reset_globals():
    """Process-wide state that survives database swaps."""
    Quantity._EMPTY_QUANTITY = None
    import barril._util.types_ as t

    t._KNOWN_NUMBER_TYPES = None
    from barril.units import Scalar
    from barril.units._abstractvaluewithquantity import AbstractValueWithQuantityObject as A

    Scalar.FORMATTED_VALUE_FORMAT = "%g"
    A.FORMATTED_SUFFIX_FORMAT = " [%s]"
    for cls in (Scalar,):
        if "FORMATTED_SUFFIX_FORMAT" in cls.__dict__:
            del cls.FORMATTED_SUFFIX_FORMAT


def clear_caches(db):
    """Back to the state right after registration.  The library's own invalidation routine is used when
    it exists, so that caches a change adds (and hooks into that routine) are reset as well."""
    clear = getattr(db, "_ClearCaches", None)
    if clear is not None:
        clear()
    known = 0
    for name in ("quantities_cache", "_category_unit_valid"):
        d = getattr(db, name, None)
        if d is not None:
            d.clear()
            known += 1
    if clear is None and known < 2:
        # the private names are gone: invalidate through the public API - re-registering a category with
        # exactly its own data is a registration (caches are dropped) that leaves the registry equal
        for c in list(db.IterCategories())[:1]:
            i = db.GetCategoryInfo(c)
            db.AddCategory(
                c, i.quantity_type, valid_units=None if i.valid_units is None else list(i.valid_units), override=True, default_unit=i.default_unit,
                default_value=i.default_value, min_value=i.min_value, max_value=i.max_value, is_min_exclusive=i.is_min_exclusive, is_max_exclusive=i.is_max_exclusive, caption=i.caption,
            )
    Quantity._EMPTY_QUANTITY = None
    if INTERLUDE and _LIGHT["on"]:
        _light_interlude()


_LIGHT = {"on": True}


def _light_interlude():
    """A handful of requests in the contradicting databases after every reset to a cold cache (a reset that
    goes through the library's own invalidation also wipes state that is wrongly shared between databases)."""
    from barril.units import ObtainQuantity, Scalar

    _LIGHT["on"] = False  # (building B1 / B2 resets nothing recursively)
    try:
        for kind in ("B1", "B2"):
            other = contradicting(kind)
            keep = Quantity._EMPTY_QUANTITY
            UnitDatabase.PushSingleton(other)
            try:
                for f in (
                    lambda: other.Convert("volume flow rate", "1000ft3/d", "m3/s", 2.5),
                    lambda: other.Convert("volume", "m3", "1000ft3", 2.5),
                    lambda: Scalar(1.0, "1000ft3/d").GetValue("m3/s"),
                    lambda: ObtainQuantity("k(ft3)"),
                    lambda: other.GetDefaultCategory("1000ft3"),
                    lambda: Scalar(1.0, "cm", "length").GetValue("km"),
                    lambda: Scalar(1.0, "cm", "depth"),
                    lambda: Scalar(1.0, "km", "length"),
                    lambda: Scalar(1.0, "min", "time"),
                    lambda: other.Convert("length", "km", "cm", 2.0),
                    lambda: Scalar(1.0, "ft", "depth"),
                    lambda: other.CheckCategoryUnit("length", "mi"),
                    lambda: Scalar(2.0, "min", "time") < Scalar(1.0, "h", "time"),
                    lambda: (Scalar(2.0, "cm") * Scalar(2.0, "cm")) * Scalar(1.0, "m"),
                ):
                    try:
                        f()
                    except Exception:
                        pass
            finally:
                UnitDatabase.PopSingleton()
                Quantity._EMPTY_QUANTITY = keep
    finally:
        _LIGHT["on"] = True


def build(name):
    db = UnitDatabase(default_singleton=True)
    if name == "posc":
        UnitDatabase.FillUnitDatabaseWithPosc(db)
    elif name == "posc_nocat":
        UnitDatabase.FillUnitDatabaseWithPosc(db, fill_categories=False)
    elif name == "simple":
        UnitDatabase.FillSimple(db)
    elif name == "empty":
        pass
    else:
        raise KeyError(name)
    return db


def get(name):
    """Process-wide cached instance of a shipped world (caches cleared on every request)."""
    db = _CACHE.get(name)
    if db is None:
        db = _CACHE[name] = build(name)
    clear_caches(db)
    return db


@contextlib.contextmanager
def installed(db, keep_globals=False):
    """db becomes the singleton for the duration of the block.  keep_globals=True leaves process-wide
    state alone (for histories that span several installs and want to see what survives them)."""
    if not keep_globals:
        reset_globals()
    UnitDatabase.PushSingleton(db)
    try:
        yield db
    finally:
        UnitDatabase.PopSingleton()
        if not keep_globals:
            Quantity._EMPTY_QUANTITY = None


@contextlib.contextmanager
def world(name):
    with installed(get(name)) as db:
        if INTERLUDE:
            interlude()
        if WARM:
            warm_up(db)
        yield db


# -- mini worlds ---------------------------------------------------------------------------------


def _conv(a, b, c, d):
    """(frombase, tobase) with the table's own closure makers (coefficients exposed)."""
    from barril.units.posc import MakeBaseToCustomary, MakeCustomaryToBase

    return MakeBaseToCustomary(a, b, c, d), MakeCustomaryToBase(a, b, c, d)


_LENGTH = {"cm": (0.0, 0.01, 1.0, 0.0), "km": (0.0, 1000.0, 1.0, 0.0), "mm": (0.0, 0.001, 1.0, 0.0),
           "dm": (0.0, 0.1, 1.0, 0.0), "ft": (0.0, 0.3048, 1.0, 0.0)}


def add_length(db, units=("m", "cm", "km", "mm")):
    db.AddUnitBase("length", "meters", "m")
    for u in units:
        if u != "m":
            db.AddUnit("length", u + "-name", u, *_conv(*_LENGTH[u]))


def add_time(db, units=("s", "min")):
    db.AddUnitBase("time", "seconds", "s")
    if "min" in units:
        db.AddUnit("time", "minutes", "min", *_conv(0.0, 60.0, 1.0, 0.0))
    if "h" in units:
        db.AddUnit("time", "hours", "h", *_conv(0.0, 3600.0, 1.0, 0.0))


def add_temperature(db):
    db.AddUnitBase("temperature", "kelvin", "K")
    db.AddUnit("temperature", "celsius", "degC", *_conv(273.15, 1.0, 1.0, 0.0))
    db.AddUnit("temperature", "fahrenheit", "degF", *_conv(2298.35, 5.0, 9.0, 0.0))


def mini(kind="base"):
    """A small hand-registered database (fresh instance every call)."""
    db = UnitDatabase(default_singleton=True)
    add_length(db)
    add_time(db)
    add_temperature(db)
    if kind == "bare":
        return db
    db.AddCategory("length", "length")
    db.AddCategory("time", "time")
    db.AddCategory("temperature", "temperature")
    return db


# -- the "warm" regime ---------------------------------------------------------------------------
# In the thorough tier every check runs twice: on cold caches and again on a database that has
# already served a broad pack of requests another part of a program could have issued (WARM is set
# by the runner before the second pass; forked workers inherit it).  State kept too coarsely - a
# cache keyed by the unit label alone, a memo that is not invalidated, a class-level attribute left
# behind - is then poisoned by operations that are outside the check's own alphabet.
WARM = False
INTERLUDE = True  # every entry into a shipped world is preceded by work in two other databases (see interlude)


def warm_up(db):
    """Requests that leave the registry unchanged; failures are expected and ignored."""
    import numpy as np

    from barril.units import Array, FractionScalar, ObtainQuantity, Scalar

    def attempt(f):
        try:
            f()
        except Exception:
            pass

    labels = list(db.unit_to_unit_info)
    reps = {}
    for u, i in db.unit_to_unit_info.items():
        reps.setdefault(i.quantity_type, u)
    if "Unknown" in db.quantity_types and "Unknown" in db.categories_to_quantity_types:
        uq = ObtainQuantity("<unknown>", "Unknown")
        us, ua = Scalar(uq, 12.5), Array(uq, np.array([12.5, 1.0]))
        for v in labels:
            attempt(lambda: us.GetValue(v))
            attempt(lambda: ua.GetValues(v))
            attempt(lambda: uq.Convert([3.0], v))
            attempt(lambda: db.Convert("Unknown", "<unknown>", v, 1.0))
            attempt(lambda: db.Convert("Unknown", v, "<unknown>", 1.0))
    cats = {}
    for c, info in db.categories_to_quantity_types.items():
        cats.setdefault(info.quantity_type, []).append(c)
    qts = list(db.quantity_types)
    for k, qt in enumerate(qts):
        units = db.GetUnits(qt)
        foreign = reps[qts[(k + 1) % len(qts)]]
        fcat = db.GetDefaultCategory(foreign)
        for v in units:
            # rejected cross-type requests that name this unit
            attempt(lambda: Scalar(1.0, foreign).GetValue(v))
            attempt(lambda: db.Convert(db.GetQuantityType(foreign), foreign, v, 1.0))
            if fcat:
                attempt(lambda: Scalar(1.0, v, fcat))
                attempt(lambda: ObtainQuantity(v, fcat))
                attempt(lambda: db.CheckCategoryUnit(fcat, v))
            # the same unit with every category of its type, and with the type name as category
            for c in cats.get(qt, []):
                attempt(lambda: ObtainQuantity(v, c))
                attempt(lambda: db.CheckCategoryUnit(c, v))
            attempt(lambda: db.GetInfo(qt, v))
            attempt(lambda: ObtainQuantity(v, None, "a caption"))
        # derived quantities and conversions with exponents on the first units of the type
        for u in units[:3]:
            for v in units[:3]:
                attempt(lambda: (Scalar(2.0, u) * Scalar(3.0, u)) * Scalar(5.0, v))
                attempt(lambda: (Scalar(2.0, u) * Scalar(3.0, u)) + (Scalar(5.0, v) * Scalar(5.0, v)))
                attempt(lambda: (1.0 / Scalar(2.0, u)) - (1.0 / Scalar(5.0, v)))
                attempt(lambda: Array(np.array([2.0, 3.0]), u) * (Array([5.0, 7.0], v) * Array([5.0, 7.0], v)))
                attempt(lambda: FractionScalar(1.5, u).GetValue(v))
                attempt(lambda: db.Convert(qt, [(u, 2)], [(v, 2)], 3.0))
    try:
        from barril.units.unit_database import _LEGACY_TO_CURRENT

        for u in labels:
            for legacy, current in _LEGACY_TO_CURRENT:
                if current in u:
                    spelled = u.replace(current, legacy)
                    attempt(lambda: ObtainQuantity(spelled))
                    attempt(lambda: Scalar(1.0, spelled).GetValue(u))
                    attempt(lambda: db.GetDefaultCategory(spelled))
    except ImportError:
        pass


# -- another database in the same process -------------------------------------------------------------
# A program may work with a second UnitDatabase for a while (PushSingleton / PopSingleton).  Nothing of
# that may leak into the first one.  Two "contradicting" databases are kept per process: B1 registers the
# common symbols of the shipped table with DIFFERENT sizes (and other offsets), B2 knows only the base
# units, so that requests that are valid in the shipped table are rejected there.

_B1 = {
    "length": ("m", {"cm": (0.0, 0.5), "km": (0.0, 10.0), "mm": (0.0, 0.25), "ft": (0.0, 2.0), "in": (0.0, 0.125), "mi": (0.0, 3.0), "angstrom": (0.0, 1e-3), "dm": (0.0, 0.75)}),
    "time": ("s", {"min": (0.0, 7.0), "h": (0.0, 11.0), "d": (0.0, 13.0)}),
    "mass": ("kg", {"g": (0.0, 0.5), "lbm": (0.0, 3.0)}),
    "temperature": ("K", {"degC": (100.0, 2.0), "degF": (50.0, 3.0), "degR": (0.0, 5.0)}),
    "pressure": ("Pa", {"bar": (0.0, 3.0), "psi": (0.0, 7.0), "kPa": (0.0, 9.0), "Pa(g)": (17.0, 1.0), "psig": (5.0, 7.0)}),
    "volume": ("m3", {"cm3": (0.0, 0.5), "L": (0.0, 0.25), "bbl": (0.0, 3.0), "Mcf": (0.0, 5.0), "ft3": (0.0, 7.0)}),
    "area": ("m2", {"cm2": (0.0, 0.5), "ft2": (0.0, 3.0)}),
    "volume flow rate": ("m3/s", {"Mcf/d": (0.0, 3.0), "bbl/d": (0.0, 5.0)}),
    "dimensionless": ("-", {"%": (0.0, 0.5), "ppm": (0.0, 0.25)}),
}
_CONTRA = {}


def contradicting(kind):
    db = _CONTRA.get(kind)
    if db is None:
        db = UnitDatabase()
        for qt, (base, units) in _B1.items():
            db.AddUnitBase(qt, base + "-name", base)
            if kind == "B1":
                # (B1 also resolves every unit to a default category of its own, one the shipped table does not have)
                for u, (a, b) in units.items():
                    db.AddUnit(qt, u + "-name", u, *_conv(a, b, 1.0, 0.0), default_category="b1 " + qt)
                db.AddCategory("b1 " + qt, qt)
            db.AddCategory(qt, qt)
        db.AddCategory("depth", "length")
        _CONTRA[kind] = db
    return db


def interlude():
    """Work with the two contradicting databases for a moment (every request wrapped: many are rejected)."""
    import numpy as np

    from barril.basic.fraction import FractionValue
    from barril.units import Array, FractionScalar, ObtainQuantity, Scalar

    def attempt(f):
        try:
            f()
        except Exception:
            pass

    for kind in ("B1", "B2"):
        other = contradicting(kind)
        keep = Quantity._EMPTY_QUANTITY
        UnitDatabase.PushSingleton(other)
        try:
            for qt, (base, units) in _B1.items():
                symbols = [base] + list(units)
                for u in symbols:
                    for c in ([qt, "depth"] if qt == "length" else [qt]):
                        attempt(lambda: Scalar(1.0, u, c))
                        attempt(lambda: ObtainQuantity(u, c))
                        attempt(lambda: other.CheckCategoryUnit(c, u))
                        attempt(lambda: Array([1.0], u, c))
                    attempt(lambda: ObtainQuantity(u))
                    attempt(lambda: other.GetDefaultCategory(u))
                    for v in symbols[:2]:
                        attempt(lambda: Scalar(2.5, u, qt).GetValue(v))
                        attempt(lambda: Array(np.array([1.0, 2.0]), u, qt).GetValues(v))
                        attempt(lambda: Array([1.0, 2.0], u, qt).GetValues(v))
                        attempt(lambda: Array((1.0, 2.0), u, qt).GetValues(v))
                        attempt(lambda: other.Convert(qt, u, v, 2.5))
                        attempt(lambda: other.Convert(qt, u, v, [2.5]))
                        attempt(lambda: other.Convert(qt, u, v, np.array([2.5])))
                        attempt(lambda: other.Convert(qt, [(u, 2)], [(v, 2)], 2.5))
                        attempt(lambda: float(FractionScalar(qt, FractionValue(2, (1, 2)), u).GetValue(v)))
                        attempt(lambda: Scalar(1.0, u, qt) < Scalar(1.0, v, qt))
                        attempt(lambda: (Scalar(2.0, u) * Scalar(3.0, u)) * Scalar(5.0, v))
                        attempt(lambda: (Scalar(2.0, u) * Scalar(3.0, u)) + (Scalar(5.0, v) * Scalar(5.0, v)))
                        attempt(lambda: (1.0 / Scalar(2.0, u)) + (1.0 / Scalar(5.0, v)))
                        attempt(lambda: Array(np.array([1.0, 2.0]), u) * (Array(np.array([3.0, 4.0]), v) * Array(np.array([3.0, 4.0]), v)))
                        attempt(lambda: Array([1.0, 2.0], u) / (Array([3.0, 4.0], v) * Array([3.0, 4.0], v)))
            attempt(lambda: Quantity.CreateEmpty())
            attempt(lambda: 2.0 / Array([4.0], "kg"))
            for legacy, current, base, qt in (("1000ft3/d", "Mcf/d", "m3/s", "volume flow rate"), ("1000ft3", "Mcf", "m3", "volume"), ("k(ft3)", "Mcf", "m3", "volume")):
                attempt(lambda: other.Convert(qt, legacy, base, 2.5))
                attempt(lambda: other.Convert(qt, base, legacy, [2.5]))
                attempt(lambda: other.Convert(qt, legacy, base, np.array([2.5])))
                attempt(lambda: Scalar(1.0, legacy).GetValue(base))
                attempt(lambda: Scalar(1.0, base, qt).CreateCopy(unit=legacy))
                attempt(lambda: Array([1.0], base, qt).GetValues(legacy))
                attempt(lambda: other.GetDefaultCategory(legacy))
                attempt(lambda: ObtainQuantity(legacy))
                attempt(lambda: other.GetInfo(qt, legacy))
        finally:
            UnitDatabase.PopSingleton()
            if keep is None:
                Quantity._EMPTY_QUANTITY = None


@contextlib.contextmanager
def foreign_singleton():
    """The contradicting database B1 is the current singleton for the duration of the block: read-only
    operations on EXISTING objects (comparisons, GetValue(s), validity, formatting) belong to the objects'
    own database and must not notice."""
    UnitDatabase.PushSingleton(contradicting("B1"))
    try:
        yield
    finally:
        UnitDatabase.PopSingleton()
