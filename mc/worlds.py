"""
The unit databases ("worlds") the checks run in, and the reset of process-wide state.

A world is installed with UnitDatabase.PushSingleton and removed with PopSingleton.  The posc
worlds are built once per process (forked workers inherit them) and reset between histories by
clearing the two caches; mini worlds are rebuilt for every history (callables, no eval).
"""
import contextlib
import locale

from barril.units import UnitDatabase
from barril.units._quantity import Quantity

try:
    locale.setlocale(locale.LC_ALL, "C")
except locale.Error:
    pass

_CACHE = {}


def reset_globals():
    """Process-wide state that survives database swaps."""
    Quantity._EMPTY_QUANTITY = None
    import barril._util.types_ as t

    t._KNOWN_NUMBER_TYPES = None
    from barril.units import Scalar
    from barril.units._abstractvaluewithquantity import AbstractValueWithQuantityObject as A

    Scalar.FORMATTED_VALUE_FORMAT = "%g"
    A.FORMATTED_SUFFIX_FORMAT = " [%s]"
    for cls in (Scalar,):
        if "FORMATTED_SUFFIX_FORMAT" in cls.__dict__:
            del cls.FORMATTED_SUFFIX_FORMAT


def clear_caches(db):
    db.quantities_cache.clear()
    db._category_unit_valid.clear()
    Quantity._EMPTY_QUANTITY = None


def build(name):
    db = UnitDatabase(default_singleton=True)
    if name == "posc":
        UnitDatabase.FillUnitDatabaseWithPosc(db)
    elif name == "posc_nocat":
        UnitDatabase.FillUnitDatabaseWithPosc(db, fill_categories=False)
    elif name == "simple":
        UnitDatabase.FillSimple(db)
    elif name == "empty":
        pass
    else:
        raise KeyError(name)
    return db


def get(name):
    """Process-wide cached instance of a shipped world (caches cleared on every request)."""
    db = _CACHE.get(name)
    if db is None:
        db = _CACHE[name] = build(name)
    clear_caches(db)
    return db


@contextlib.contextmanager
def installed(db):
    """db becomes the singleton for the duration of the block."""
    reset_globals()
    UnitDatabase.PushSingleton(db)
    try:
        yield db
    finally:
        UnitDatabase.PopSingleton()
        Quantity._EMPTY_QUANTITY = None


@contextlib.contextmanager
def world(name):
    with installed(get(name)) as db:
        yield db


# -- mini worlds ---------------------------------------------------------------------------------


def _conv(a, b, c, d):
    """(frombase, tobase) with the table's own closure makers (coefficients exposed)."""
    from barril.units.posc import MakeBaseToCustomary, MakeCustomaryToBase

    return MakeBaseToCustomary(a, b, c, d), MakeCustomaryToBase(a, b, c, d)


_LENGTH = {"cm": (0.0, 0.01, 1.0, 0.0), "km": (0.0, 1000.0, 1.0, 0.0), "mm": (0.0, 0.001, 1.0, 0.0),
           "dm": (0.0, 0.1, 1.0, 0.0), "ft": (0.0, 0.3048, 1.0, 0.0)}


def add_length(db, units=("m", "cm", "km", "mm")):
    db.AddUnitBase("length", "meters", "m")
    for u in units:
        if u != "m":
            db.AddUnit("length", u + "-name", u, *_conv(*_LENGTH[u]))


def add_time(db, units=("s", "min")):
    db.AddUnitBase("time", "seconds", "s")
    if "min" in units:
        db.AddUnit("time", "minutes", "min", *_conv(0.0, 60.0, 1.0, 0.0))
    if "h" in units:
        db.AddUnit("time", "hours", "h", *_conv(0.0, 3600.0, 1.0, 0.0))


def add_temperature(db):
    db.AddUnitBase("temperature", "kelvin", "K")
    db.AddUnit("temperature", "celsius", "degC", *_conv(273.15, 1.0, 1.0, 0.0))
    db.AddUnit("temperature", "fahrenheit", "degF", *_conv(2298.35, 5.0, 9.0, 0.0))


def mini(kind="base"):
    """A small hand-registered database (fresh instance every call)."""
    db = UnitDatabase(default_singleton=True)
    add_length(db)
    add_time(db)
    add_temperature(db)
    if kind == "bare":
        return db
    db.AddCategory("length", "length")
    db.AddCategory("time", "time")
    db.AddCategory("temperature", "temperature")
    return db
