"""
Explicit-state breadth-first search over the *real* transition functions.

A state is the history (tuple of operation indices) that reaches it.  Live objects do not copy
faithfully (closures, interning, aliasing), so a state is rebuilt by replaying its history on a
fresh system; a canonical, property-relevant key de-duplicates the frontier.  The search is
level-synchronous: the histories of one level are sharded over a fork pool, workers return the
digests of the successor states, the parent de-duplicates.  It runs to a fixpoint (no new state)
or to max_depth, whichever comes first, and reports which.

The client supplies:
    make()                      -> fresh system (implementation + reference model + monitors)
    apply(sys, op, part, hist)  -> executes ONE operation in lock-step; with part != None it also
                                   judges the step (oracle) and records violations in `part`;
                                   returns False if `op` is not enabled in this state (skipped)
    canon(sys)                  -> hashable canonical form of the state
"""
import hashlib

from .par import chunks, pmap
from .runner import HarnessError, Part

_W = {}


def digest(key):
    return hashlib.blake2b(repr(key).encode(), digest_size=12).digest()


def rebuild(make, apply, ops, hist):
    sysobj = make()
    for oi in hist:
        if apply(sysobj, ops[oi], None, None) is False:
            raise HarnessError("replay diverged: op %r not enabled while replaying %r" % (ops[oi], hist))
    return sysobj


def _look(part, make, apply, ops, h1):
    for op2 in ops:
        sys2 = rebuild(make, apply, ops, h1)
        if apply(sys2, op2, part, h1) is not False:
            part.count("transitions")
            part.count("lookahead_transitions")


def _level_task(hists):
    make, apply, ops, canon, describe, lookahead, distrust = _W["spec"]
    part = Part()
    out = []
    for h in hists:
        for oi, op in enumerate(ops):
            sysobj = rebuild(make, apply, ops, h)
            pre = digest(canon(sysobj))
            r = apply(sysobj, op, part, h)
            if r is False:
                continue
            part.count("transitions")
            c = canon(sysobj)
            if c == "BROKEN":
                # the step was judged a violation: implementation and model have diverged, the
                # state has no defined successors (it is reported, not expanded)
                part.count("violating_leaves")
                continue
            k = digest(c)
            if k == pre:
                part.count("self_loops")
                # A step that leaves the canonical state unchanged (a rejected call, a query) is merged
                # with its source by the search.  That is only sound if the two really have the same
                # futures - which is what the property claims and a defect may break through state the
                # canonical form does not see.  So, for short histories, every operation is executed and
                # judged once more AFTER the self-loop (its successors are not added to the frontier).
                if len(h) < lookahead:
                    _look(part, make, apply, ops, h + (oi,))
            elif distrust is not None and len(h) < lookahead + 1 and distrust(op):
                # operations named by the client (e.g. Clear()) lead to a state that may already be known;
                # its successors are run and judged once more after THIS history all the same
                _look(part, make, apply, ops, h + (oi,))
            out.append((k, h + (oi,)))
    return part, out


def bfs(ctx, make, apply, ops, canon, max_depth, describe=None, determinism=48, lookahead=0, distrust=None):
    """Returns dict(states, transitions, fixpoint, depth, deepest).
    lookahead=L: after every self-loop reached by a history shorter than L all operations are judged once more."""
    _W["spec"] = (make, apply, ops, canon, describe, lookahead, distrust)
    root = make()
    seen = {digest(canon(root))}
    frontier = [()]
    depth = 0
    deepest = ()
    # determinism: the same history must give the same canonical state twice
    probe = []
    while frontier and depth < max_depth:
        results = pmap(_level_task, chunks(frontier, max(1, ctx.procs * 4)), ctx.procs)
        nxt = []
        for part, out in results:
            ctx.part.merge(part)
            for k, h in out:
                if k not in seen:
                    seen.add(k)
                    nxt.append(h)
                    if len(probe) < determinism:
                        probe.append((k, h))
        frontier = nxt
        depth += 1
        if frontier:
            deepest = frontier[-1]
    for k, h in probe:
        again = digest(canon(rebuild(make, apply, ops, h)))
        if again != k:
            raise HarnessError("history %r rebuilt to a different canonical state" % (h,))
    return {
        "states": len(seen),
        "transitions": ctx.part.counters.get("transitions", 0),
        "fixpoint": not frontier,
        "depth": depth,
        "deepest": deepest,
        "open_frontier": len(frontier),
    }
