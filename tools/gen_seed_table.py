#!/venv/bin/python
"""Regenerates the seed table inside DESIGN.md section 9.4 (between the markers) from seeded/*/meta.json."""
import glob, json, os, re
V = os.path.dirname(os.path.dirname(os.path.abspath(__file__)))
rows = []
for d in sorted(glob.glob(V + "/seeded/*/meta.json")):
    m = json.load(open(d))
    sid = m["seed"]
    patch = open(V + "/seeded/%s/patch.diff" % sid).read()
    files = sorted({os.path.basename(x) for x in re.findall(r"^\+\+\+ b/(\S+)", patch, re.M)})
    notes = [x.strip("# ").strip() for x in open(V + "/seeded/%s/notes.md" % sid).read().split("\n") if x.strip()]
    first = notes[0] if notes else ""
    if len(first) < 25 and len(notes) > 1:
        first = first + " " + notes[1]
    first = first.replace("|", "/")[:140]
    rows.append("| %s | %s | %s: %s | %s |" % (sid, m["first_verdict_of_own_check"], ", ".join(files), first, (m.get("note") or "").replace("|", "/")))
n = len(rows)
missed = sum(1 for r in rows if "| missed |" in r)
still = sum(1 for r in rows if "NOT caught" in r)
sibling = sum(1 for r in rows if "NOT caught" in r and "; caught by " in r)
table = "\n".join(["<!-- seed table begin -->", "%d changes kept (%d caught by the property's own check as it stood when the change arrived, %d missed at first; %d of those are caught by the own check now, %d are marked NOT caught in the table: %d by a sibling property's check only, %d by none)." % (n, n - missed, missed, missed - still, still, sibling, still - sibling), "",
                   "| seed | own check at first | the change (files: first line of the author's notes) | what it needs / what was strengthened |", "|------|-----|-----|-----|"] + rows + ["<!-- seed table end -->"])
s = open(V + "/DESIGN.md").read()
if "<!-- seed table begin -->" in s:
    s = re.sub(r"<!-- seed table begin -->.*?<!-- seed table end -->", lambda _m: table, s, flags=re.S)
else:
    # first use: replace the old table (header line up to the line before '**What the misses')
    a = s.index("| seed | own check at first |")
    b = s.index("**What the misses had in common")
    s = s[:a] + table + "\n\n" + s[b:]
open(V + "/DESIGN.md", "w").write(s)
print(n, "seeds,", missed, "missed at first")
