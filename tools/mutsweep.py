#!/venv/bin/python
"""tools/mutsweep.py gen|tests|checks|report  [--out DIR]

A development tool (no registered command uses it): first-order mutants of barril's sources, used to
measure what the checks detect beyond the hand-written seeded changes.

  gen     enumerate the mutants of /repo/src/barril (AST operators listed below) -> DIR/mutants.jsonl
  tests   run the repository's own test suite on every mutant in scratch worktrees under /var/tmp
          (16 at a time); the ones the suite does not notice -> DIR/survivors.jsonl
  checks  run, for every survivor, the quick checks that own the mutated file (most likely first, stop at
          the first one that reports a violation) via VERIF_BARRIL_SRC -> DIR/verdicts.jsonl
  report  summary per file / per operator and the list of survivors no check noticed

Nothing is written to /repo or to /verif/evidence; all worktrees are removed at the end.
"""
import ast, copy, json, os, subprocess, sys, shutil, time
from concurrent.futures import ThreadPoolExecutor

REPO = "/repo"
SRC = REPO + "/src/barril"
OUT = "/var/tmp/mutsweep"
if "--out" in sys.argv:
    OUT = sys.argv[sys.argv.index("--out") + 1]

SKIP_FILES = {"conftest.py", "units/unit_rich_text_representations.py", "units/interfaces.py",
              "units/unit_system_interface.py", "curve/curve_interface.py"}

OWNERS = [
    ("units/posc.py", "C01 C02 C06 C16 C19"),
    ("units/unit_database.py", "C01 C14 C15 C16 C19 C12 C02 C05 C07 C06"),
    ("units/_quantity.py", "C07 C03 C04 C05 C20 C08 C15 C16 C02"),
    ("units/_scalar.py", "C08 C09 C12 C19 C13 C03 C04 C16 C02"),
    ("units/_array.py", "C10 C09 C12 C19 C13 C03 C02"),
    ("units/_fixedarray.py", "C11 C19 C10 C09 C13"),
    ("units/_abstractvaluewithquantity.py", "C19 C08 C12 C09 C13 C16 C11 C07 C02"),
    ("units/_fraction_scalar.py", "C18 C08 C12 C19 C13 C16"),
    ("basic/fraction/", "C18 C08 C13"),
    ("units/unit_system", "C17"),
    ("units/scalar_validation/", "C12"),
    ("units/_value_generator.py", "C10 C09 C11 C03"),
    ("curve/", "C11 C08 C13"),
    ("basic/format_float/", "C18 C20"),
    ("_util/", "C09 C10 C11 C18 C13"),
    ("units/", "C05 C19 C07 C14"),
]


_FUNCS = {}


def func_at(rel, line):
    """name of the innermost function enclosing a line"""
    if rel not in _FUNCS:
        spans = []
        for n in ast.walk(ast.parse(open(os.path.join(SRC, rel)).read())):
            if isinstance(n, (ast.FunctionDef, ast.AsyncFunctionDef)):
                spans.append((n.lineno, n.end_lineno, n.name))
        _FUNCS[rel] = spans
    best = None
    for a, b, name in _FUNCS[rel]:
        if a <= line <= b and (best is None or a >= best[0]):
            best = (a, name)
    return best[1] if best else ""


def owners(rel, line=0):
    import re

    f = func_at(rel, line) if line else ""
    if rel == "units/unit_database.py":
        if re.search("DoOperation|Match|ConsideringExponent|Sum|Subtract|Multiply|Divide", f):
            return "C03 C04 C10 C13 C06".split()
        if re.search("Convert|GetInfo|Legacy|FindUnitCase|Numpy", f):
            return "C01 C02 C16 C15 C08".split()
        if re.search("Add|Clear|Fill|Create|BaseUnit|__init__|Singleton", f):
            return "C14 C15 C19 C16 C01".split()
        if re.search("Check|Valid|Default|Category|Quantity", f):
            return "C15 C12 C14 C19 C05".split()
        return "C15 C14 C01 C02 C19".split()
    if rel == "units/_quantity.py":
        if re.search("ObtainQuantity|__new__|__init__|Create|MakeCopy|__reduce__|__eq__|__hash__|__ne__|Unknown", f):
            return "C07 C19 C15 C16 C20".split()
        if re.search("Convert", f):
            return "C02 C01 C05 C16 C08".split()
        if re.search("Str|Name|GetUnit|GetCategory|GetQuantityType|__repr__|__str__|Joining", f):
            return "C20 C07 C03 C04".split()
        if re.search("CheckValue|Valid", f):
            return "C12 C15 C19".split()
        return "C04 C03 C05 C07 C20".split()
    for prefix, lst in OWNERS:
        if rel.startswith(prefix):
            return lst.split()[:5]
    return []


CMP = {ast.Eq: ast.NotEq, ast.NotEq: ast.Eq, ast.Lt: ast.LtE, ast.LtE: ast.Lt, ast.Gt: ast.GtE, ast.GtE: ast.Gt,
       ast.Is: ast.IsNot, ast.IsNot: ast.Is, ast.In: ast.NotIn, ast.NotIn: ast.In}
BIN = {ast.Add: ast.Sub, ast.Sub: ast.Add, ast.Mult: ast.Div, ast.Div: ast.Mult, ast.FloorDiv: ast.Div, ast.Pow: ast.Mult}
COPYISH = {"list", "dict", "tuple", "set", "OrderedDict", "frozenset", "sorted", "copy", "deepcopy"}


class Site:
    def __init__(self, path, kind, lineno, apply):
        self.path, self.kind, self.lineno, self.apply = path, kind, lineno, apply


def sites_of(tree):
    """Yields (kind, lineno, path-to-node, mutate(node-copy-parent...)) as closures working on a fresh deepcopy."""
    out = []

    def visit(node, path, in_func, in_msg):
        # path: list of (field, index) from the module
        if isinstance(node, (ast.Import, ast.ImportFrom)):
            return
        if isinstance(node, ast.Expr) and isinstance(node.value, ast.Constant) and isinstance(node.value.value, str):
            return  # docstring
        ln = getattr(node, "lineno", 0)
        if not in_msg:
            if isinstance(node, ast.Compare):
                for i, op in enumerate(node.ops):
                    if type(op) in CMP:
                        out.append(("cmp %s->%s" % (type(op).__name__, CMP[type(op)].__name__), ln, list(path),
                                    (lambda n, i=i, t=CMP[type(op)]: n.ops.__setitem__(i, t()))))
            if isinstance(node, ast.BinOp) and type(node.op) in BIN:
                if not (isinstance(node.op, ast.Mod)) and not (isinstance(node.left, ast.Constant) and isinstance(node.left.value, str)):
                    out.append(("bin %s->%s" % (type(node.op).__name__, BIN[type(node.op)].__name__), ln, list(path),
                                (lambda n, t=BIN[type(node.op)]: setattr(n, "op", t()))))
            if isinstance(node, ast.AugAssign) and type(node.op) in BIN:
                out.append(("aug %s->%s" % (type(node.op).__name__, BIN[type(node.op)].__name__), ln, list(path),
                            (lambda n, t=BIN[type(node.op)]: setattr(n, "op", t()))))
            if isinstance(node, ast.BoolOp):
                t = ast.Or if isinstance(node.op, ast.And) else ast.And
                out.append(("bool %s->%s" % (type(node.op).__name__, t.__name__), ln, list(path), (lambda n, t=t: setattr(n, "op", t()))))
            if isinstance(node, ast.UnaryOp) and isinstance(node.op, (ast.Not, ast.USub)):
                out.append(("drop %s" % type(node.op).__name__, ln, list(path), "REPLACE_WITH_OPERAND"))
            if isinstance(node, (ast.If, ast.While, ast.IfExp)):
                t = node.test
                simple = isinstance(t, ast.Compare) and len(t.ops) == 1 and type(t.ops[0]) in (ast.Eq, ast.NotEq, ast.Is, ast.IsNot, ast.In, ast.NotIn)
                if not simple and not (isinstance(t, ast.UnaryOp) and isinstance(t.op, ast.Not)):
                    out.append(("negate test", ln, list(path), (lambda n: setattr(n, "test", ast.UnaryOp(op=ast.Not(), operand=n.test)))))
            if isinstance(node, ast.Constant) and not isinstance(node.value, (str, bytes)) and node.value is not None and node.value is not Ellipsis:
                v = node.value
                if isinstance(v, bool):
                    out.append(("const %r->%r" % (v, not v), ln, list(path), (lambda n, v=v: setattr(n, "value", not v))))
                elif isinstance(v, int) and abs(v) <= 1000:
                    out.append(("const %r->%r" % (v, v + 1), ln, list(path), (lambda n, v=v: setattr(n, "value", v + 1))))
                    if v not in (0, 1):
                        out.append(("const %r->%r" % (v, v - 1), ln, list(path), (lambda n, v=v: setattr(n, "value", v - 1))))
                    if v == 1:
                        out.append(("const 1->0", ln, list(path), (lambda n: setattr(n, "value", 0))))
                elif isinstance(v, float):
                    out.append(("const %r->%r" % (v, v + 1.0), ln, list(path), (lambda n, v=v: setattr(n, "value", v + 1.0))))
            if isinstance(node, ast.Call):
                f = node.func
                if isinstance(f, ast.Name) and f.id in COPYISH and len(node.args) == 1 and not node.keywords and not isinstance(node.args[0], (ast.GeneratorExp, ast.ListComp, ast.Starred)):
                    out.append(("uncopy %s(x)->x" % f.id, ln, list(path), "REPLACE_WITH_ARG0"))
                if isinstance(f, ast.Attribute) and f.attr in ("copy", "deepcopy") and isinstance(f.value, ast.Name) and f.value.id == "copy" and len(node.args) == 1:
                    out.append(("uncopy copy.%s(x)->x" % f.attr, ln, list(path), "REPLACE_WITH_ARG0"))
                elif isinstance(f, ast.Attribute) and f.attr == "copy" and not node.args and not node.keywords:
                    out.append(("uncopy x.copy()->x", ln, list(path), "REPLACE_WITH_RECEIVER"))
            if in_func and isinstance(node, (ast.Assign, ast.AugAssign, ast.Raise, ast.Assert)) or (in_func and isinstance(node, ast.Expr) and isinstance(node.value, ast.Call)):
                out.append(("delete %s" % type(node).__name__, ln, list(path), "REPLACE_WITH_PASS"))
            if in_func and isinstance(node, ast.Return) and node.value is not None and not (isinstance(node.value, ast.Constant) and node.value.value is None):
                pass
            if isinstance(node, ast.Break):
                out.append(("break->continue", ln, list(path), "REPLACE_WITH_CONTINUE"))
        for field, value in ast.iter_fields(node):
            if field in ("annotation", "returns", "decorator_list", "type_comment", "type_params", "bases", "keywords") and not isinstance(node, ast.Call):
                continue
            msg = in_msg or (isinstance(node, ast.Raise) and field in ("exc", "cause")) or (isinstance(node, ast.Assert) and field == "msg")
            fn = in_func or isinstance(node, (ast.FunctionDef, ast.AsyncFunctionDef, ast.Lambda))
            if isinstance(value, list):
                for i, item in enumerate(value):
                    if isinstance(item, ast.AST):
                        visit(item, path + [(field, i)], fn, msg)
            elif isinstance(value, ast.AST):
                visit(value, path + [(field, None)], fn, msg)

    visit(tree, [], False, False)
    return out


def get(tree, path):
    node = tree
    for field, i in path:
        node = getattr(node, field)
        if i is not None:
            node = node[i]
    return node


def put(tree, path, new):
    parent = get(tree, path[:-1])
    field, i = path[-1]
    if i is None:
        setattr(parent, field, new)
    else:
        getattr(parent, field)[i] = new


def mutate(tree, site):
    kind, ln, path, how = site
    t = copy.deepcopy(tree)
    node = get(t, path)
    if how == "REPLACE_WITH_OPERAND":
        put(t, path, node.operand)
    elif how == "REPLACE_WITH_ARG0":
        put(t, path, node.args[0])
    elif how == "REPLACE_WITH_RECEIVER":
        put(t, path, node.func.value)
    elif how == "REPLACE_WITH_PASS":
        put(t, path, ast.copy_location(ast.Pass(), node))
    elif how == "REPLACE_WITH_CONTINUE":
        put(t, path, ast.copy_location(ast.Continue(), node))
    else:
        how(node)
    ast.fix_missing_locations(t)
    return t


def files():
    res = []
    for root, dirs, fs in os.walk(SRC):
        if "_tests" in root or "__pycache__" in root:
            continue
        for f in fs:
            if f.endswith(".py"):
                rel = os.path.relpath(os.path.join(root, f), SRC)
                if rel in SKIP_FILES or (f == "__init__.py" and rel != "basic/format_float/__init__.py"):
                    continue
                res.append(rel)
    return sorted(res)


def posc_limit(tree):
    """posc.py: only the code before the table filler (the closure makers and helpers) and the Create* helpers."""
    keep = []
    for n in tree.body:
        if isinstance(n, ast.FunctionDef) and n.name.startswith("Fill"):
            continue
        keep.append(n)
    return keep


def gen():
    os.makedirs(OUT, exist_ok=True)
    n = 0
    with open(OUT + "/mutants.jsonl", "w") as fo:
        for rel in files():
            src = open(os.path.join(SRC, rel)).read()
            tree = ast.parse(src)
            allowed = None
            if rel == "units/posc.py":
                allowed = set()
                for node in posc_limit(tree):
                    for sub in ast.walk(node):
                        if hasattr(sub, "lineno"):
                            allowed.add(sub.lineno)
            lines = src.splitlines()
            for idx, site in enumerate(sites_of(tree)):
                if allowed is not None and site[1] not in allowed:
                    continue
                node = get(tree, site[2])
                seg = ast.get_source_segment(src, node) or ""
                rec = {"id": n, "file": rel, "idx": idx, "kind": site[0], "line": site[1],
                       "source": lines[site[1] - 1].strip()[:160] if site[1] else "", "node": seg[:200]}
                fo.write(json.dumps(rec) + "\n")
                n += 1
    print("mutants:", n)


def mutated_source(rel, idx):
    src = open(os.path.join(SRC, rel)).read()
    tree = ast.parse(src)
    site = sites_of(tree)[idx]
    return ast.unparse(mutate(tree, site)) + "\n"


def worktree(k):
    w = "%s/w%d" % (OUT, k)
    if os.path.exists(w):
        subprocess.call(["git", "-C", REPO, "worktree", "remove", "--force", w])
        shutil.rmtree(w, ignore_errors=True)
    subprocess.check_call(["git", "-C", REPO, "worktree", "add", "-q", "--detach", w, "HEAD"])
    return w


def drop_worktrees():
    for d in os.listdir(OUT):
        if d.startswith("w") and os.path.isdir(os.path.join(OUT, d)):
            subprocess.call(["git", "-C", REPO, "worktree", "remove", "--force", os.path.join(OUT, d)])
            shutil.rmtree(os.path.join(OUT, d), ignore_errors=True)
    subprocess.call(["git", "-C", REPO, "worktree", "prune"])


def run_tests(w):
    env = dict(os.environ, PYTHONPATH="src", PYTHONDONTWRITEBYTECODE="1")
    try:
        p = subprocess.run(["/venv/bin/python", "-m", "pytest", "-q", "-x", "-p", "no:cacheprovider", "--timeout=120"],
                           cwd=w, env=env, stdout=subprocess.PIPE, stderr=subprocess.STDOUT, timeout=600)
        return p.returncode, p.stdout.decode(errors="replace").strip().splitlines()[-1:]
    except subprocess.TimeoutExpired:
        return 124, ["timeout"]


def tests():
    muts = [json.loads(l) for l in open(OUT + "/mutants.jsonl")]
    done = {}
    if os.path.exists(OUT + "/tests.jsonl"):
        for l in open(OUT + "/tests.jsonl"):
            r = json.loads(l)
            done[r["id"]] = r
    todo = [m for m in muts if m["id"] not in done]
    nw = int(os.environ.get("MUT_WORKERS", "16"))
    import queue, threading
    q = queue.Queue()
    for m in todo:
        q.put(m)
    lock = threading.Lock()
    fo = open(OUT + "/tests.jsonl", "a")

    def worker(k):
        w = worktree(k)
        if k == 0:
            pass
        while True:
            try:
                m = q.get_nowait()
            except queue.Empty:
                return
            path = os.path.join(w, "src/barril", m["file"])
            orig = open(path).read()
            try:
                new = mutated_source(m["file"], m["idx"])
                open(path, "w").write(new)
                rc, tail = run_tests(w)
            except Exception as e:
                rc, tail = -1, [repr(e)]
            finally:
                open(path, "w").write(orig)
            with lock:
                fo.write(json.dumps(dict(m, rc=rc, tail=tail)) + "\n")
                fo.flush()

    with ThreadPoolExecutor(nw) as ex:
        list(ex.map(worker, range(nw)))
    fo.close()
    drop_worktrees()
    res = [json.loads(l) for l in open(OUT + "/tests.jsonl")]
    surv = [r for r in res if r["rc"] == 0]
    with open(OUT + "/survivors.jsonl", "w") as f:
        for r in surv:
            f.write(json.dumps(r) + "\n")
    print("mutants %d, survive the test suite %d" % (len(res), len(surv)))


def baseline():
    """The unparsed, unmutated sources must pass the suite (the mutants are written with ast.unparse)."""
    w = worktree(99)
    for rel in files():
        p = os.path.join(w, "src/barril", rel)
        text = ast.unparse(ast.parse(open(p).read())) + "\n"
        open(p, "w").write(text)
    print(run_tests(w))
    drop_worktrees()


def checks():
    surv = [json.loads(l) for l in open(OUT + "/survivors.jsonl")]
    done = set()
    if os.path.exists(OUT + "/verdicts.jsonl"):
        done = {json.loads(l)["id"] for l in open(OUT + "/verdicts.jsonl")}
    todo = [m for m in surv if m["id"] not in done]
    prio = ["units/unit_database.py", "units/_quantity.py", "units/unit_system_manager.py", "units/_scalar.py", "units/_array.py", "units/_fixedarray.py", "units/posc.py", "units/_fraction_scalar.py"]
    todo.sort(key=lambda m: (prio.index(m["file"]) if m["file"] in prio else len(prio), m["id"]))
    nw = int(os.environ.get("MUT_WORKERS", "3"))
    procs = os.environ.get("MUT_PROCS", "6")
    import queue, threading
    q = queue.Queue()
    for m in todo:
        q.put(m)
    lock = threading.Lock()
    fo = open(OUT + "/verdicts.jsonl", "a")

    def worker(k):
        w = worktree(k)
        scratch = "%s/scratch%d" % (OUT, k)
        while True:
            try:
                m = q.get_nowait()
            except queue.Empty:
                return
            path = os.path.join(w, "src/barril", m["file"])
            orig = open(path).read()
            ran, caught, sig = [], None, None
            try:
                open(path, "w").write(mutated_source(m["file"], m["idx"]))
                for c in owners(m["file"], m["line"]):
                    env = dict(os.environ, VERIF_BARRIL_SRC=w + "/src", VERIF_SCRATCH_OUT=scratch, VERIF_PROCS=procs)
                    t0 = time.time()
                    try:
                        p = subprocess.run(["./check", c, "quick"], cwd="/verif", env=env, stdout=subprocess.PIPE, stderr=subprocess.STDOUT, timeout=900)
                        rc, txt = p.returncode, p.stdout.decode(errors="replace")
                    except subprocess.TimeoutExpired:
                        rc, txt = 124, "timeout"
                    ran.append([c, rc, round(time.time() - t0, 1)])
                    if rc != 0:
                        caught = c
                        for line in txt.splitlines():
                            if "signature:" in line or line.startswith("HARNESS") or "Error" in line:
                                sig = line.strip()[:300]
                                break
                        break
            finally:
                open(path, "w").write(orig)
                shutil.rmtree(scratch, ignore_errors=True)
            with lock:
                fo.write(json.dumps(dict(m, ran=ran, caught=caught, sig=sig)) + "\n")
                fo.flush()

    with ThreadPoolExecutor(nw) as ex:
        list(ex.map(worker, range(nw)))
    fo.close()
    drop_worktrees()


def report():
    import collections
    t = [json.loads(l) for l in open(OUT + "/tests.jsonl")]
    v = [json.loads(l) for l in open(OUT + "/verdicts.jsonl")] if os.path.exists(OUT + "/verdicts.jsonl") else []
    print("mutants %d; killed by the test suite %d; survivors %d; judged %d" % (len(t), sum(1 for r in t if r["rc"] != 0), sum(1 for r in t if r["rc"] == 0), len(v)))
    per = collections.defaultdict(lambda: [0, 0, 0])
    for r in v:
        per[r["file"]][0] += 1
        if r["caught"]:
            rc = [x for x in r["ran"] if x[0] == r["caught"]][0][1]
            per[r["file"]][1 if rc == 1 else 2] += 1
    for f in sorted(per):
        print("  %-45s survivors %4d  violation %4d  harness-error/timeout %3d  unnoticed %4d" % (f, per[f][0], per[f][1], per[f][2], per[f][0] - per[f][1] - per[f][2]))
    if "-v" in sys.argv:
        for r in v:
            if not r["caught"]:
                print("UNNOTICED #%d %s:%d [%s] %s" % (r["id"], r["file"], r["line"], r["kind"], r["source"]))


def one():
    """mutsweep.py one <mutant id> <Cxx> ... : the given checks against one mutant (own worktree, removed afterwards)"""
    mid = int(sys.argv[2])
    m = [json.loads(l) for l in open(OUT + "/mutants.jsonl")][mid]
    assert m["id"] == mid
    w = worktree(100 + os.getpid() % 1000)
    path = os.path.join(w, "src/barril", m["file"])
    open(path, "w").write(mutated_source(m["file"], m["idx"]))
    scratch = w + ".scratch"
    print("#%d %s:%d [%s] %s" % (mid, m["file"], m["line"], m["kind"], m["source"]))
    try:
        for c in sys.argv[3:]:
            if c.endswith(".py"):
                p = subprocess.run(["/venv/bin/python", c], cwd="/verif", env=dict(os.environ, PYTHONPATH=w + "/src:/verif"), stdout=subprocess.PIPE, stderr=subprocess.STDOUT)
                print(p.stdout.decode(errors="replace")[-3000:])
                continue
            env = dict(os.environ, VERIF_BARRIL_SRC=w + "/src", VERIF_SCRATCH_OUT=scratch)
            p = subprocess.run(["./check", c, "quick"], cwd="/verif", env=env, stdout=subprocess.PIPE, stderr=subprocess.STDOUT)
            txt = p.stdout.decode(errors="replace")
            sig = [l.strip() for l in txt.splitlines() if "signature:" in l][:2]
            print("  %s rc=%d %s" % (c, p.returncode, " | ".join(sig)[:400]))
    finally:
        subprocess.call(["git", "-C", REPO, "worktree", "remove", "--force", w])
        shutil.rmtree(scratch, ignore_errors=True)


if __name__ == "__main__":
    cmd = sys.argv[1]
    {"gen": gen, "tests": tests, "checks": checks, "report": report, "baseline": baseline, "one": one}[cmd]()
