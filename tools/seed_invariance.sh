#!/bin/sh
# tools/seed_invariance.sh [checks...]: the verdict and the coverage counters of a quick run must not depend on
# VERIF_SEED (it only rotates the dispatch order) nor on the process: runs each check for seeds 0 1 7 12345 and
# compares exit code, evaluations, nontrivial, states, transitions.
cd "$(dirname "$0")/.." || exit 2
CHECKS="$*"; [ -z "$CHECKS" ] && CHECKS="C01 C02 C03 C04 C05 C06 C07 C08 C09 C10 C11 C12 C13 C14 C15 C16 C17 C18 C19 C20"
bad=0
for c in $CHECKS; do
  ref=""
  for s in 0 1 7 12345; do
    line=$(VERIF_SEED=$s ./check $c quick 2>&1 | tail -1); rc=$?
    sig=$(echo "$line" | sed -e 's/seed=[0-9]*//' -e 's/wall=.*//')
    if [ -z "$ref" ]; then ref="$sig"; elif [ "$sig" != "$ref" ]; then echo "DIFFERS $c seed=$s: $sig  vs  $ref"; bad=1; fi
  done
  echo "$c: $ref"
done
exit $bad
