#!/bin/sh
# tools/seed_eval.sh <dir with patch.diff and demo.py> <Cxx> [more Cyy ...]
# Confirms a seeded change in a scratch worktree of /repo (outside /repo and /verif), then runs the
# given checks (quick) against it.  Nothing is applied to /repo itself.  The worktree is removed.
DIR="$1"; shift
W=$(mktemp -d /var/tmp/se.XXXXXX); rmdir "$W"
git -C /repo worktree add -q --detach "$W" HEAD || exit 2
trap 'git -C /repo worktree remove --force "$W" 2>/dev/null; rm -rf "$W" /var/tmp/verif-scratch.$$' EXIT
cd "$W" || exit 2
PYTHONPATH=src /venv/bin/python "$DIR/demo.py" >/dev/null 2>&1; echo "demo without change: rc=$?"
git apply "$DIR/patch.diff" || { echo "PATCH DOES NOT APPLY"; exit 2; }
echo "tests with change: $(PYTHONPATH=src /venv/bin/python -m pytest -q -p no:cacheprovider -x 2>&1 | tail -1)"
PYTHONPATH=src /venv/bin/python "$DIR/demo.py" >/dev/null 2>&1; echo "demo with change: rc=$?"
for P in "$@"; do
  out=$(cd /verif && VERIF_SCRATCH_OUT=/var/tmp/verif-scratch.$$ VERIF_BARRIL_SRC="$W/src" ./check "$P" "${TIER:-quick}" 2>&1); rc=$?
  echo "check $P: rc=$rc $(echo "$out" | grep -c '^VIOLATION') VIOLATION lines; $(echo "$out" | grep -m1 'signature:' | cut -c1-220)"
  [ $rc -eq 2 ] && echo "$out" | tail -5
done
