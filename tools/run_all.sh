#!/bin/sh
# tools/run_all.sh [quick|thorough]: every registered check once, one summary line each
cd "$(dirname "$0")/.." || exit 2
TIER="${1:-quick}"
for c in C01 C02 C03 C04 C05 C06 C07 C08 C09 C10 C11 C12 C13 C14 C15 C16 C17 C18 C19 C20; do
  out=$(./check $c "$TIER" 2>&1); rc=$?
  echo "rc=$rc $(echo "$out" | grep -c '^VIOLATION') viol  $(echo "$out" | tail -1 | cut -c1-170)"
done
