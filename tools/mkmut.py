#!/venv/bin/python
"""tools/mkmut.py <out.diff> <relative file> : reads OLD\n====\nNEW from stdin, applies the replacement in a scratch
clone of /repo and writes the resulting git diff to out.diff (the clone is deleted)."""
import subprocess, sys, tempfile, shutil, os
out, rel = sys.argv[1], sys.argv[2]
old, new = sys.stdin.read().split("\n====\n")
new = new.rstrip("\n") + "\n" if new.endswith("\n") else new
d = tempfile.mkdtemp(dir="/var/tmp", prefix="mk.")
try:
    subprocess.check_call(["git", "clone", "-q", "/repo", d + "/r"])
    p = os.path.join(d, "r", rel)
    s = open(p).read()
    assert s.count(old) == 1, "old text occurs %d times" % s.count(old)
    open(p, "w").write(s.replace(old, new))
    diff = subprocess.check_output(["git", "-C", d + "/r", "diff"])
    open(out, "wb").write(diff)
    print("wrote", out, len(diff), "bytes")
finally:
    shutil.rmtree(d)
