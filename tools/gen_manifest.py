#!/venv/bin/python
"""Regenerates /verif/MANIFEST.json from the table below (run after adding a check)."""
import json
import os

VERIF = os.path.dirname(os.path.dirname(os.path.abspath(__file__)))

MC = "model_checking"
EX = "exploration"

# id: (level, technique, text, note)
CHECKS = {
    "C01": (EX, "bounded-exhaustive enumeration of all conversion paths of length <= 2 over the shipped tables + exact rational check of the written coefficients",
            "Every ordered unit pair (quick: plus two intermediate units per pair; thorough: every ordered triple) of every quantity type of the three shipped fillers is executed on the real Convert over a 11+3k value alphabet; round trip, path independence, same-unit identity and strict monotonicity are judged metamorphically, and inverse-ness of every row is decided exactly from its coefficients. Complete for the finite table; values are an alphabet.",
            "floats outside the alphabet not covered (rows are affine: two points determine the map; coefficients compared exactly); tolerance 1e-12 on the base-unit scale"),
}

NOT_YET = {}


def main():
    props = [json.loads(l) for l in open(os.path.join(VERIF, "properties.jsonl"))]
    checks = []
    na = []
    for p in props:
        pid = p["id"]
        if pid in CHECKS:
            level, technique, text, note = CHECKS[pid]
            checks.append(
                {
                    "property_id": pid,
                    "quick_cmd": "./check %s quick" % pid,
                    "thorough_cmd": "./check %s thorough" % pid,
                    "evidence_file": "/verif/evidence/%s.json" % pid,
                    "replay_cmd_template": "./check %s --replay {path}" % pid,
                    "engine": "mc",
                    "level_claimed": {"category": level, "text": text, "design_ref": "DESIGN.md section 4, %s" % pid},
                    "level_note": note,
                    "technique": technique,
                }
            )
        else:
            na.append({"property_id": pid, "reason": NOT_YET.get(pid, "check not built yet in this revision (design in DESIGN.md section 4); not claimed until it runs")})
    manifest = {
        "version": 1,
        "setup_cmd": "cd /verif && /venv/bin/python -c \"import sys; sys.path.insert(0, '.'); import mc.runner, mc.worlds\" 2>/dev/null; /venv/bin/python -c \"import numpy, barril\"",
        "hooks": {
            "guard": "BARRIL_VERIF",
            "enable": "no source hooks are needed: the checks import barril from /repo/src and observe it from outside (BARRIL_VERIF=1 is exported by ./check for documentation only)",
            "baseline_off_cmd": "cd /repo && /venv/bin/python -m pytest -ra -q -p no:cacheprovider --timeout=900 --continue-on-collection-errors",
            "source_commits": [],
            "add_only": True,
        },
        "engines": [
            {
                "name": "mc",
                "path": "/verif/mc",
                "serves_properties": [c["property_id"] for c in checks],
                "kind_free_text": "hand-written explicit-state / bounded-exhaustive explorer in Python running the real barril code (replay-built states, canonical hashing, lock-step reference models, fork-pool sharding)",
            }
        ],
        "checks": checks,
        "not_applicable": na,
        "notes": "All checks are exhaustive within stated bounds (no sampling). Known findings: /verif/known_findings.json. Seeded-change demos: /verif/seeded/.",
    }
    with open(os.path.join(VERIF, "MANIFEST.json"), "w") as f:
        json.dump(manifest, f, indent=1)
    print("MANIFEST.json: %d checks, %d not claimed" % (len(checks), len(na)))


if __name__ == "__main__":
    main()
