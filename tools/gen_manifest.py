#!/venv/bin/python
"""Regenerates /verif/MANIFEST.json from the table below (run after adding a check)."""
import json
import os

VERIF = os.path.dirname(os.path.dirname(os.path.abspath(__file__)))

MC = "model_checking"
EX = "exploration"

# id: (level, technique, text, note)
CHECKS = {
    "C01": (EX, "bounded-exhaustive enumeration of all conversion paths of length <= 2 over the shipped tables + exact rational check of the written coefficients",
            "Every ordered unit pair (quick: plus two intermediate units per pair; thorough: every ordered triple) of every quantity type of the three shipped fillers is executed on the real Convert over a 11+3k value alphabet; round trip, path independence, same-unit identity and strict monotonicity are judged metamorphically, and inverse-ness of every row is decided exactly from its coefficients. Complete for the finite table; values are an alphabet. The posc sweep is repeated after conversions of every unit pair requested under the Unknown quantity type (depth-2 histories).",
            "floats outside the alphabet not covered (rows are affine: two points determine the map; coefficients compared exactly); tolerance 1e-12 on the base-unit scale"),
    "C03": (MC, "explicit-state BFS over the algebra of derived quantities on the real operators; all same-dimension ordered state pairs judged by an exact dimensional-analysis model",
            "States are derived Scalars reached by real * and / from 8 (category, unit) atoms (two categories per type, two units per type), de-duplicated on the ordered composing map; for every ordered pair of states with equal dimension vector a+b, a-b, b+a, (a+b)-b run on Scalar and on Array (list/tuple/ndarray) and are compared with the dims model; all ordered unit pairs of all 191 quantity types cover the exponent-1 clause incl. affine units. Exhaustive to depth 2 (quick) / 3 (thorough). Reciprocal atoms (1.0/atom) are start states as well.",
            "histories deeper than the bound and values outside the two value assignments are not covered; db.Convert is the reference for re-expression in the simple part (judged by C01/C02)"),
    "C04": (MC, "explicit-state BFS over the algebra of derived quantities on the real operators; every transition and every ordered state pair judged by an exact dimensional-analysis model",
            "Every transition of the depth-3 (quick) / depth-4 (thorough) state graph and every ordered pair of depth-2 (quick) / depth-3 (thorough) states is executed through a*b, a/b, a//b, (a*b)/b, a/a, a**1..3 on Scalar, Array[list], Array[ndarray] and the Quantity operators; dimension exponents, absence of zero exponents and base-unit magnitudes are compared with the dims model (exact rationals from the table's coefficients). Reciprocal atoms (1.0/atom) are start states as well.",
            "scale-only units and non-zero values as the property states; depth bound; two value assignments"),
    "C20": (MC, "explicit-state BFS over products/quotients of atomic units; every rendered string parsed back with an independent grammar",
            "Every transition of the depth-3 (quick) / depth-4 (thorough) graph over 10 atomic (category, unit) atoms renders unit, category, quantity-type and unit-name strings that are parsed by an independent implementation of the table's symbol grammar and compared with the composing map; all 6322 (unit, category) pairs of the table are checked as simple quantities incl. repr/str of Scalar and Array. Reciprocals are start states and 1.0/state is judged for every state; the exploration is repeated after every simple table quantity has rendered its strings; objects are asked for a suffix in another unit and then for their own strings again.",
            "atomic composing symbols only (as the property states); depth bound"),
    "C14": (MC, "explicit-state BFS over registration calls on the real UnitDatabase in lock-step with a reference registry; invariants in every state; atomicity of every rejected call",
            "All histories up to depth 5 (quick) / 6 (thorough) over 29/34 registration calls (valid, duplicate, invalid, overriding, inheriting, legacy-spelled, before-base) are executed on a fresh database; acceptance, unit order and category records are compared with the registry model after every accepted call, invariants I1-I4 (unique symbols, identity base unit, category well-formedness, every unit/category builds a valid Scalar) are evaluated in every state and every rejected call must leave the public fingerprint unchanged. The same invariants run over every unit and category of posc, posc_nocat and simple. A use-everything step lets registrations meet warm caches; every self-loop of a short history is followed by all operations once more.",
            "depth bound (no fixpoint: the registry only grows); implementation-defined argument validation is judged for atomicity only"),
    "C17": (MC, "explicit-state BFS to a fixpoint on the real UnitSystemManager in lock-step with a reference model that also predicts the callback log",
            "All reachable states of a fresh manager under 37 operations (add with 5 mapping forms incl. one dict shared between calls, remove, select, template, SetDefaultUnit / RemoveCategory on every registered system, GetNewId, ConvertToCurrent) over ids {a, b, 'system 1'} are explored to a fixpoint (15 452 states); accept/reject, ordered ids, mappings, current, template, the callback log delta and query results are compared with the model at every transition; rejected calls must change nothing. thorough adds a third id and more unit choices to depth 6. Every self-loop (rejected call, query) of a history shorter than 4 is followed by all operations once more, in lock-step with the model.",
            "SetCurrent only receives registered systems or None; one on_current per selection event"),
    "C15": (MC, "explicit-state BFS over interleavings of registrations, queries and failing operations on the real database; differential oracle warm database vs fresh database with the same registrations",
            "All histories to depth 3 (quick) / 5 (thorough) over 9 registrations (two rejected) and 49 closed query terms (lookups, conversions, validity checks, construction, arithmetic, posc helpers, failing calls) run on a database rebuilt per history; the canonical outcome of every transition is compared with the outcome of the same operation on a fresh database that replayed only the registrations, and the public registry fingerprint is compared around every query. Process-wide state is kept for the length of a history; one step works with a second database; self-loops of short histories are followed by all operations once more.",
            "operations are closed terms (objects do not persist between steps); depth bound"),
    "C05": (MC, "exhaustive enumeration of all cross-type inputs of the shipped table + every operation sequence up to a depth with a differential (rejected steps deleted) oracle",
            "(a) all 501k cross-type (unit, category) pairs through the constructors, all cross-type unit pairs (quick: one representative target per foreign type, 294k; thorough: all 2.36M) through the conversions and every ordered pair of depth-2 derived states with different dimension vectors through + - < <= > >= must raise UnitsError/TypeError/ValueError; (b) EVERY sequence of length <= 3 (quick) / 4 (thorough) over 13 valid and 20 invalid operations on persistent operands is executed with no de-duplication: a rejected step leaves operands and registry unchanged and every step's outcome equals its outcome in the history with the rejected steps deleted. Every derivable legacy spelling is sent against every foreign quantity type through 17 entry points; the persistent operands include a quantity holding two units of one type.",
            "dimensionless operands and the Unknown quantity type are exempt as the property says; depth bound"),
    "C07": (MC, "explicit-state BFS over closed public operations on the real database; every quantity ever seen re-fingerprinted after every step; interning judged against a reference resolver",
            "All histories to depth 3 (quick) / 4 (thorough) over 52 operations (creation in every form incl. legacy spelling, list/tuple composing maps, direct constructor, posc helpers; Scalar/Array/Quantity arithmetic; conversions; failing operations; copies; pickling; SetUnknownCaption) on posc with caches reset per history. After every step the fingerprint (all getters, hash, repr) of every tracked quantity must equal its first value, the equality partition must be stable, symmetric and agree with the denoted (category, unit, caption)/composing map, equal quantities hash equal, repeated interned requests return the identical object, copies are identical and pickles equal. The alphabet includes captions on known units and derived quantities holding two units of one quantity type on either side of arithmetic.",
            "Quantity(category, unit) called directly only needs == and equal hash (it allocates by construction); depth bound"),
    "C11": (MC, "worklist search to a fixpoint over FixedArray and Curve states on the real constructors and methods",
            "From every constructor form x dimension 0..6 x length 0..6 x list/tuple/ndarray (plus CreateWithQuantity, CreateEmptyArray, category-only forms) the set of FixedArray states (dimension, container kind, unit, category) is closed under CreateCopy variants, arithmetic with numbers/Arrays/FixedArrays/ndarrays of every length, pickle, ChangingIndex (every index, 4 value forms, both use_value_unit) and IndexAsScalar; every object that comes into existence satisfies len(values) == dimension >= 2, size-breaking attempts raise ValueError and leave the source unchanged, ChangingIndex/IndexAsScalar results are compared with db.Convert. Curve states (len image, len domain) are closed under constructor/SetImage/SetDomain with accepted and rejected calls. Fixpoint reached (409 + 10 states). Twins sharing one values container with different units are queried alternately; every accepted or rejected Curve call is followed by every call once more on the same curve.",
            "element values are abstracted from the state (no size behaviour depends on them)"),
    "C13": (MC, "explicit-state search over chained operation histories on a pool of real value objects; whole-pool snapshot comparison after every transition",
            "Every history of length <= 2 (quick) / 3 for alias-prone first steps (thorough) of ~60 operation kinds (arithmetic incl. numbers and ndarrays, six comparisons, conversions, CreateCopy variants, ChangingIndex, IndexAsScalar, ConvertFractionValue, validation, formatting, copy/deepcopy/Copy/pickle) applied to a fresh pool of 18 value objects of every class and container kind plus 11 caller-owned containers; later steps operate on results or operands of earlier ones; after every transition every pool member and container is compared with its snapshot at creation; copies and pickles must be ==.",
            "operations on disjoint objects commute (shared state is the database: C15); Array/FractionScalar pickling is outside the property"),
    "C02": (EX, "bounded-exhaustive enumeration of every unit pair x category x conversion route on the real code, differential against the database's float conversion",
            "Every ordered unit pair of every quantity type (37 040) with the unit's default category - plus every category on the pairs from its default unit (quick) or every category of the type (thorough, ~120k combinations) - goes through 16 public routes (Scalar.GetValue, CreateCopy(unit), ChangeScalars, Quantity.ConvertScalarValue/Convert, db.Convert on float/int/list/tuple/ndarray of length 0,1,4/exponent lists/by category, Array.GetValues incl. list and tuple of tuples, Array.CreateCopy, FixedArray.IndexAsScalar/ChangingIndex with both use_value_unit, UnitSystemManager.ConvertToCurrent/ConvertScalarToCurrent, FractionScalar) over 4 values; every element must equal db.Convert and results keep category, quantity type and unit. Own-unit queries run on all 771 derived states of the depth-3 graph; category defaults in a world with non-zero defaults in non-base units incl. affine. The Scalar/Quantity routes are repeated for every pair on a database warmed by 11 prelude queries per unit; copies made with new values in another unit answer for their own values; every shipped category's default is re-expressed in every unit.",
            "db.Convert on floats is the reference (judged by C01); 4-value alphabet"),
    "C06": (EX, "complete enumeration of the shipped table; every row parsed by an independent grammar and compared with the exact-rational composition of its parts",
            "All 1548 rows are visited: 924 decompose into registered units (product/quotient/power/numeric multiplier, also the row's own symbol read as atom**n) and 150 atomic rows are named SI-prefixed forms of another row; the row factor must equal the composition of the parts' factors as exact rationals built from the written literals, within the precision those literals carry, and the same comparison is repeated through the implementation's own conversions. 55 rows disagree today and are recorded one by one (keyed by row, decomposition and observed factor).",
            "rows the grammar cannot decompose are counted, not judged; literals with < 4 significant digits are exact conventional factors"),
    "C08": (EX, "bounded-exhaustive enumeration of every unit pair with constructed less/greater/exactly-equal probes judged by exact rational amounts; all pairs of an object zoo for equality",
            "For all 37 040 ordered unit pairs, two amounts and probes physically less, greater (1e-6) and - where exact as rationals and in both float directions (12.5k pairs) - equal, the four order operators are evaluated in both operand orders on Scalar (all pairs) and FractionScalar (quick: 12 units per type; thorough: all) and compared with the exact base-unit amounts; all 36k ordered pairs of quantity types must raise TypeError; ==/!= over all ordered pairs of a 59-object zoo never raise, are reflexive, symmetric, mutually consistent and hash-consistent. All ordered pairs of 15 FractionValue forms per unit, sequences of 8 comparisons on one pair of FractionScalars in different units, and all ordered pairs of the derived-quantity graph (incl. reciprocal starts) as Quantity and Scalar are judged for order, symmetry and hash consistency.",
            "near-ties differing only by rounding are excluded by construction (the property speaks of physical amounts)"),
    "C09": (EX, "bounded-exhaustive enumeration of the complete product quantity pool x value-object shape x number type x expression on the real operators, judged by raw-number arithmetic and the dims model",
            "Every combination of a quantity pool (simple, second category, affine, empty, unknown-with-caption and every ordered composing map of the depth-2 (quick) / depth-3 (thorough) derived-quantity graph) x 7 shapes (Scalar, Array and FixedArray over list/tuple/ndarray, lengths 0,1,3) x 13 python/numpy scalar types (+ float/int/0-d ndarrays for containers) x the ten expressions k*x x*k x/k x//k x+k k+x x-k k-x k/x k//x x 2 value assignments is executed; the result must be an object of x's class, keep x's quantity (reciprocal dimension and units for k/x, k//x) and hold the values of the same operation on raw numbers. thorough adds every unit of the table. Numbers include 0, -0.0, +-1; every ordered pair of 40 (shape, expression) steps runs on a fresh database per pair.",
            "Scalar with an ndarray operand is outside the alphabet; float32/float16 operands compared at their precision"),
    "C10": (EX, "bounded-exhaustive enumeration of quantity pairs x operators x container combinations x length pairs on the real Array operators, differential against the element-wise Scalar path",
            "Every ordered pair of an 18-quantity pool (quick) / of all 101 depth-2 derived states (thorough) x {+ - * / //} x 9 list/tuple/ndarray container combinations x all 16 length pairs in 0..3 is executed: equal lengths must give exactly the element-wise Scalar values and quantity (and raise exactly when the Scalar path raises), unequal lengths must raise. GetValues(unit) is compared with Scalar.GetValue for every ordered unit pair of 6 (quick) / all (thorough) quantity types x containers x lengths incl. lists of tuples; FromScalars over every sequence of length 0..3 of 5 mixed-unit scalars x unit and category choices. The numpy length-1 broadcast (D15) is a recorded finding attributed by a defect model. The sequence * / + - // * + is run on ONE pair of operand objects per container combination.",
            "the Scalar path is the reference (judged by C03/C04); fixed element alphabets"),
    "C12": (EX, "bounded-exhaustive enumeration of limit configurations x units x probe alphabets x every element sequence up to a length on real validation, judged by the property's definition",
            "A database is rebuilt per configuration: 2 quantity types (one affine) x every default unit x 9 limit configurations (none/min/max/both x inclusive/exclusive). For every unit an alphabet of probes (below, just below, exactly at - only where the conversion is exact -, just inside, inside, ..., NaN, +-inf) is validated as Scalar, FractionScalar, through db.CheckValueForCategory and ScalarMinMaxValidator, and EVERY sequence of length 0..3 (thorough 0..4) over the alphabet as Array and FixedArray over list/tuple/ndarray (so every element order), plus lists of tuples; IsValid/CheckValidity must equal the definition on the amounts converted to the default unit, rejections must report a violated limit, its operator and an offending amount, verdicts must be stable on the second call. Registration: 9 limit kinds x default unit x 11-15 valid-unit sets x 6 default values x direct/from_category: rejected, or the defaults satisfy the category's own constraints. Histories validate?;copy;validate over all ordered pairs of limit configurations of two categories with different default units x 6 CreateCopy variants.",
            "db.Convert is the reference conversion (judged by C01); an explicit default_unit outside explicit valid_units is accepted by design"),
    "C16": (EX, "complete enumeration of every derivable legacy spelling x every unit-taking entry point x both request orders, differential against the current spelling",
            "Every legacy spelling derivable from the substitution list for every table unit (64 today) goes through 35 entry points (ObtainQuantity forms, Scalar/Array/FixedArray/FractionScalar constructors, CreateCopy, GetValue/GetValues, Quantity.Convert, db.Convert in every argument position and container, GetDefaultCategory, GetInfo, CheckValueForCategory, AddCategory(valid_units/default_unit) on a fresh database, arithmetic, comparison), legacy first on a cold cache and current first; results must equal those of the current spelling and objects must report the current symbol; every one of the 1548 current symbols must be a fixed point of the rewrite, and the rewrite idempotent. thorough adds every conversion target of the type. Every legacy spelling is used with every non-default category of its type first (cold cache) and then category-less; registration/query histories on a fresh small database compare legacy and current spellings on twin databases.",
            "the substitution list is read from barril; a conversion between the two spellings of one unit may differ by rounding (same-unit shortcut is taken on the spelling)"),
    "C18": (EX, "bounded-exhaustive enumeration of Fraction pairs, FractionValue triples, CreateFromFloat inputs and FractionScalar unit pairs, judged by exact rational arithmetic and by the Scalar path",
            "(A) all 16x16 Fraction pairs x + - * / % and six comparisons, numbers on both sides, ** -2..3, unary operations and setters against fractions.Fraction; (B) 11 numbers x 7 numerators x denominators 1..64: float, copy, str->CreateFromString in both locale modes exactly, order operators over all ordered pairs of a third of them; (C) CreateFromFloat on every +-n/10^k (n <= 10^4, k <= 4) and terminating i + p/q (q <= 64); (D) every ordered unit pair of every quantity type x 3 (thorough 5) fraction values: FractionScalar.GetValue, db.Convert(FractionValue) and order operators against Scalar(float(value)). D11b (numerator quantised by Fraction) is a recorded finding attributed by a defect model.",
            "order of FractionValues judged where exact amounts differ by > 1e-9 or floats are identical; format/parse for %g-positional numbers"),
    "C19": (EX, "complete enumeration of every unit and category of the table x construction forms, pairwise equality inside each family",
            "Every unit (1548) with its resolved default category (which must exist and have the unit's quantity type) - and every other category of the type for the first/last unit of each type (quick) or for every unit (thorough) - x 3 values is built through 13 Scalar forms, 6 FractionScalar forms, 8 Array and 7 FixedArray forms over list/tuple/ndarray of length 0..3; all forms of a family are compared pairwise with == and != in both directions; eval(repr(scalar)) == scalar; every category (328): category-only form vs default value/unit forms for the four classes and Scalar(c, unit=u) for every unit. Default-category forms are rebuilt after requests of the unit with every other category; category-only forms after every Scalar(c, unit=u).",
            "values {1.5, -2.0, 0.0}"),
}

NOT_YET = {}


def main():
    props = [json.loads(l) for l in open(os.path.join(VERIF, "properties.jsonl"))]
    checks = []
    na = []
    for p in props:
        pid = p["id"]
        if pid in CHECKS:
            level, technique, text, note = CHECKS[pid]
            checks.append(
                {
                    "property_id": pid,
                    "quick_cmd": "./check %s quick" % pid,
                    "thorough_cmd": "./check %s thorough" % pid,
                    "evidence_file": "/verif/evidence/%s.json" % pid,
                    "replay_cmd_template": "./check %s --replay {path}" % pid,
                    "engine": "mc",
                    "level_claimed": {"category": level, "text": text, "design_ref": "DESIGN.md section 4, %s" % pid},
                    "level_note": note,
                    "technique": technique,
                }
            )
        else:
            na.append({"property_id": pid, "reason": NOT_YET.get(pid, "check not built yet in this revision (design in DESIGN.md section 4); not claimed until it runs")})
    manifest = {
        "version": 1,
        "setup_cmd": "cd /verif && /venv/bin/python -c \"import sys; sys.path.insert(0, '.'); import mc.runner, mc.worlds\" 2>/dev/null; /venv/bin/python -c \"import numpy, barril\"",
        "hooks": {
            "guard": "BARRIL_VERIF",
            "enable": "no source hooks are needed: the checks import barril from /repo/src and observe it from outside (BARRIL_VERIF=1 is exported by ./check for documentation only)",
            "baseline_off_cmd": "cd /repo && /venv/bin/python -m pytest -ra -q -p no:cacheprovider --timeout=900 --continue-on-collection-errors",
            "source_commits": [],
            "add_only": True,
        },
        "engines": [
            {
                "name": "mc",
                "path": "/verif/mc",
                "serves_properties": [c["property_id"] for c in checks],
                "kind_free_text": "hand-written explicit-state / bounded-exhaustive explorer in Python running the real barril code (replay-built states, canonical hashing, lock-step reference models, fork-pool sharding)",
            }
        ],
        "checks": checks,
        "not_applicable": na,
        "notes": "All checks are exhaustive within stated bounds (no sampling). In the thorough tier every check runs twice: on cold caches and on databases warmed by a broad pack of foreign requests. Known findings: /verif/known_findings.json. Seeded-change demos (80, written by independent sub-agents): /verif/seeded/, table in DESIGN.md section 9.4.",
    }
    with open(os.path.join(VERIF, "MANIFEST.json"), "w") as f:
        json.dump(manifest, f, indent=1)
    print("MANIFEST.json: %d checks, %d not claimed" % (len(checks), len(na)))


if __name__ == "__main__":
    main()
