#!/venv/bin/python
"""Development-time tool (never run by a check): records the violations a check reports on the
current tree as known findings in known_findings.json.  usage: freeze_known.py Cxx <id prefix> <sig regex>"""
import importlib, json, os, re, sys, warnings
VERIF = os.path.dirname(os.path.dirname(os.path.abspath(__file__)))
sys.path.insert(0, "/repo/src"); sys.path.insert(0, VERIF)
warnings.filterwarnings("ignore")
from mc.runner import Ctx
prop, prefix, rx = sys.argv[1], sys.argv[2], re.compile(sys.argv[3])
ctx = Ctx(prop, "thorough" if "--thorough" in sys.argv else "quick", 0)
importlib.import_module("mc.props." + prop.lower()).run(ctx)
path = os.path.join(VERIF, "known_findings.json")
data = json.load(open(path))
have = {f.get("match") for f in data["findings"]}
n = 0
for v in ctx.part.violations:
    if rx.search(v["signature"]) and v["signature"] not in have:
        n += 1
        k = sum(1 for f in data["findings"] if f["id"].startswith(prefix + "-")) + 1
        d = v["detail"]
        what = v["signature"].split(":", 1)[1].strip()
        data["findings"].append({"id": "%s-%02d" % (prefix, k), "status": "known", "property": prop, "match": v["signature"], "what": what + (" (composition of parts gives %r)" % d.get("composition_of_parts", d.get("prefix_times_base_row")) if "row_factor" in d else "")})
json.dump(data, open(path, "w"), indent=1)
print("added", n, "known findings; total violations seen", ctx.part.n_violations)
