#!/venv/bin/python
"""Development-time tool: run a check in-process and group its violation signatures. usage: summ.py Cxx [tier] [regex-to-strip]"""
import importlib, os, re, sys, warnings, collections
VERIF = os.path.dirname(os.path.dirname(os.path.abspath(__file__)))
sys.path.insert(0, os.environ.get("VERIF_BARRIL_SRC", "/repo/src")); sys.path.insert(0, VERIF)
warnings.filterwarnings("ignore")
import numpy; numpy.seterr(all="ignore")
import mc.runner as R
R.MAX_KEPT=200000
from mc.runner import Ctx
prop = sys.argv[1]; tier = sys.argv[2] if len(sys.argv) > 2 else "quick"
ctx = Ctx(prop, tier, 0)
importlib.import_module("mc.props." + prop.lower()).run(ctx)
groups = collections.Counter(); ex = {}
for v in ctx.part.violations:
    parts = v["signature"].split(":")
    key = (parts[1].split("[")[0] if len(parts) > 1 else "", parts[-1], str(v["detail"].get("error", ""))[:80], str(v["detail"].get("result_type", "")), v.get("model"))
    groups[key] += 1; ex.setdefault(key, v)
print("total", ctx.part.n_violations, "kept", len(ctx.part.violations))
for k, n in groups.most_common(40):
    print(n, k); print("    e.g.", ex[k]["signature"], str(ex[k]["detail"])[:300])
