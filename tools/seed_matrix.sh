#!/bin/sh
# tools/seed_matrix.sh [seed ids...]: for every kept seeded change, apply it to a scratch worktree of /repo
# (outside /repo and /verif), run EVERY check's quick command against it and print one row per seed:
#   <seed> <property> : checks that report a VIOLATION | checks with rc=2
# Results go to stdout; nothing under /verif/evidence or /repo is touched.
cd "$(dirname "$0")/.." || exit 2
SEEDS="$*"; [ -z "$SEEDS" ] && SEEDS=$(ls seeded)
for s in $SEEDS; do
  W=$(mktemp -d /var/tmp/sm.XXXXXX); rmdir "$W"
  git -C /repo worktree add -q --detach "$W" HEAD || exit 2
  if ! (cd "$W" && git apply "$OLDPWD/seeded/$s/patch.diff"); then echo "$s: PATCH DOES NOT APPLY"; git -C /repo worktree remove --force "$W"; continue; fi
  hit=""; broken=""
  for c in C01 C02 C03 C04 C05 C06 C07 C08 C09 C10 C11 C12 C13 C14 C15 C16 C17 C18 C19 C20; do
    VERIF_SCRATCH_OUT=/var/tmp/verif-scratch.$$ VERIF_BARRIL_SRC="$W/src" ./check $c quick >/var/tmp/sm.$$.out 2>&1; rc=$?
    [ $rc -eq 1 ] && hit="$hit $c"
    [ $rc -eq 2 ] && broken="$broken $c"
  done
  echo "$s : caught by:$hit | harness error in:$broken"
  git -C /repo worktree remove --force "$W"; rm -rf "$W" /var/tmp/verif-scratch.$$ /var/tmp/sm.$$.out
done
