#!/bin/sh
# tools/thorough_some.sh Cxx ... : the thorough tier of the given checks, one line per check (development helper)
cd "$(dirname "$0")/.." || exit 2
bad=0
for c in "$@"; do
  out=$(./check "$c" thorough 2>&1); rc=$?
  echo "rc=$rc $(echo "$out" | grep -c '^VIOLATION') viol  $(echo "$out" | tail -1 | cut -c1-200)"
  [ $rc -ne 0 ] && bad=1
done
exit $bad
