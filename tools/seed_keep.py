#!/venv/bin/python
"""tools/seed_keep.py <src dir> <seed id> <property> <first verdict: caught|missed> [note]
Copies a confirmed seeded change (patch.diff, demo.py, notes.md) to /verif/seeded/<seed id>/ and writes meta.json.
The confirmation itself (tests pass, demo fails with / passes without the change) is done by tools/seed_eval.sh."""
import json, os, shutil, subprocess, sys
src, sid, prop, first = sys.argv[1:5]
note = sys.argv[5] if len(sys.argv) > 5 else ""
dst = os.path.join(os.path.dirname(os.path.dirname(os.path.abspath(__file__))), "seeded", sid)
os.makedirs(dst, exist_ok=True)
for f in ("patch.diff", "demo.py", "notes.md"):
    shutil.copy(os.path.join(src, f), os.path.join(dst, f))
out = subprocess.run([os.path.join(os.path.dirname(__file__), "seed_eval.sh"), dst, prop], capture_output=True, text=True).stdout
lines = [l for l in out.splitlines() if l and not l.startswith("WARNING")]
notes = open(os.path.join(dst, "notes.md")).read()
meta = {
    "seed": sid,
    "property": prop,
    "origin": "written by a fresh sub-agent that saw only the property text and a scratch worktree of /repo (nothing from /verif)",
    "needs_to_manifest": notes.strip(),
    "repo_head_when_written": subprocess.run(["git", "-C", "/repo", "rev-parse", "--short", "HEAD"], capture_output=True, text=True).stdout.strip(),
    "confirmed_by": "tools/seed_eval.sh %s %s  (scratch worktree under /var/tmp, removed afterwards)" % (dst, prop),
    "confirmation_output": lines,
    "first_verdict_of_own_check": first,
    "note": note,
}
json.dump(meta, open(os.path.join(dst, "meta.json"), "w"), indent=1)
print("\n".join(lines))
