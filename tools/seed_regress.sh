#!/bin/sh
# tools/seed_regress.sh [seed ids...]: every kept seeded change against the quick check of ITS OWN property
# (scratch worktree of /repo under /var/tmp, removed afterwards).  Prints one line per seed; exit 1 if any is missed.
cd "$(dirname "$0")/.." || exit 2
SEEDS="$*"; [ -z "$SEEDS" ] && SEEDS=$(ls seeded)
missed=0
for s in $SEEDS; do
  p=$(echo "$s" | cut -c1-3)
  W=$(mktemp -d /var/tmp/sr.XXXXXX); rmdir "$W"
  git -C /repo worktree add -q --detach "$W" HEAD || exit 2
  if ! (cd "$W" && git apply "$OLDPWD/seeded/$s/patch.diff" 2>/dev/null); then echo "$s: PATCH DOES NOT APPLY to the current /repo HEAD"; git -C /repo worktree remove --force "$W"; missed=1; continue; fi
  VERIF_SCRATCH_OUT=/var/tmp/verif-scratch.$$ VERIF_BARRIL_SRC="$W/src" ./check "$p" quick >/var/tmp/sr.$$.out 2>&1; rc=$?
  if [ $rc -ne 1 ] && grep -q "NOT caught" "seeded/$s/meta.json"; then echo "$s: not caught by its own check (recorded as such in meta.json)"; git -C /repo worktree remove --force "$W"; rm -rf "$W" /var/tmp/verif-scratch.$$ /var/tmp/sr.$$.out; continue; fi
  if [ $rc -eq 1 ]; then echo "$s: caught ($(grep -m1 'signature:' /var/tmp/sr.$$.out | cut -c14-150))"; else echo "$s: NOT CAUGHT rc=$rc"; missed=1; fi
  git -C /repo worktree remove --force "$W"; rm -rf "$W" /var/tmp/verif-scratch.$$ /var/tmp/sr.$$.out
done
exit $missed
