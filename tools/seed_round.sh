#!/bin/sh
# tools/seed_round.sh <round dir> <Cxx> ...: own-check verdict for the two changes of each property of a round
for p in "$@"; do for n in 1 2; do d="$1/$p.out/$n"; [ "$p" = "$1" ] && continue; [ -f "$d/patch.diff" ] || continue; echo "$p.$n $(/verif/tools/seed_eval.sh $d $p 2>&1 | grep "^check\|demo with\|tests with\|DOES NOT" | tr '\n' ' ' | cut -c1-300)"; done; done
