#!/bin/sh
# tools/mutant.sh <patch.diff|-> <Cxx> [tier] [--tests]: apply a patch to a scratch clone of /repo, run the
# repository tests (optional) and the check against the clone, then delete the clone.
set -e
PATCH="$1"; PROP="$2"; TIER="${3:-quick}"
D=$(mktemp -d /var/tmp/mut.XXXXXX)
git clone -q /repo "$D/r"
if [ "$PATCH" = "-" ]; then (cd "$D/r" && git apply -); else (cd "$D/r" && git apply "$PATCH"); fi
if [ "$4" = "--tests" ]; then (cd "$D/r" && PYTHONPATH=src /venv/bin/python -m pytest -q -p no:cacheprovider 2>&1 | tail -1); fi
set +e
(cd /verif && VERIF_BARRIL_SRC="$D/r/src" ./check "$PROP" "$TIER" 2>&1 | grep -v "^  detail" | tail -6)
rm -rf "$D"
