# Stand-alone replay of a violation found by /verif (no explorer involved).
# Run with: /venv/bin/python <this file>   (exit 1 = the violation reproduces)
import os, sys
sys.path.insert(0, os.environ.get("VERIF_BARRIL_SRC", "/repo/src"))
sys.path.insert(0, '/verif')
from mc import worlds
from mc.ref.dims import Model
from barril.units import Scalar
with worlds.world('posc') as db:
    a = (Scalar(2.0, 'm', 'length') * Scalar(2.0, 'm', 'length'))
    b = (Scalar(7.0, 'km', 'depth') * Scalar(5.0, 'm', 'depth'))
    r = a + b
    m = Model(db)
    ea, eb = m.base_magnitude(a.GetQuantity(), a.value), m.base_magnitude(b.GetQuantity(), b.value)
    got = m.base_magnitude(r.GetQuantity(), r.value)
    print(a, '+', b, '->', r)
    assert r.GetQuantity().GetCategoryToUnitAndExps() == a.GetQuantity().GetCategoryToUnitAndExps(), r.GetQuantity()
    assert abs(float(got) - float(ea + eb)) <= 1e-12 * max(abs(float(ea)), abs(float(eb))), (float(got), float(ea + eb))

