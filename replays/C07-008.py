# Stand-alone replay of a violation found by /verif (no explorer involved).
# Run with: /venv/bin/python <this file>   (exit 1 = the violation reproduces)
import os, sys
sys.path.insert(0, os.environ.get("VERIF_BARRIL_SRC", "/repo/src"))
sys.path.insert(0, '/verif')
import sys
from mc.props import c07
sys.exit(c07.replay(["ObtainQuantity('m')", 'Array(m)*Array(cm) ndarray']))

