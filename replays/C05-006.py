# Stand-alone replay of a violation found by /verif (no explorer involved).
# Run with: /venv/bin/python <this file>   (exit 1 = the violation reproduces)
import os, sys
sys.path.insert(0, os.environ.get("VERIF_BARRIL_SRC", "/repo/src"))
sys.path.insert(0, '/verif')
from mc import worlds
from barril.units import *
with worlds.world('posc'):
    a = Scalar(2.0, 'm', 'length')
    b = (Scalar(2.0, 'm', 'length') * Scalar(5.0, 'm', 'depth'))
    try:
        r = a + b
    except (UnitsError, TypeError, ValueError) as e:
        print('raised', type(e).__name__); raise SystemExit(0)
    print('returned', r); raise SystemExit(1)

